#!/bin/sh
# usage: try_mutant.sh <patch.diff> <property> [tier]
# Applies the patch in a scratch worktree of /repo's HEAD (never in /repo itself, so
# that background runs building from /repo are not disturbed), runs the check against
# that worktree (VERIF_REPO), removes the worktree. Equivalent to
#   git -C /repo apply <patch>; ./check <property> quick; git -C /repo checkout -- .
patch="$1"; prop="$2"; tier="${3:-quick}"
wt=$(mktemp -d /tmp/mutwt-XXXXXX); rmdir "$wt"
git -C /repo worktree add -f "$wt" HEAD >/dev/null 2>&1 || { echo "worktree failed"; exit 2; }
cd "$wt" || exit 2
if ! git apply --check $APPLY_OPTS "$patch" 2>/dev/null; then
  if ! git apply --3way $APPLY_OPTS "$patch" 2>/tmp/apply.err; then echo "PATCH DOES NOT APPLY: $patch"; head -5 /tmp/apply.err; cd /; git -C /repo worktree remove --force "$wt"; exit 3; fi
else
  git apply $APPLY_OPTS "$patch"
fi
out=$(mktemp /tmp/mutant-out-XXXXXX); err=$(mktemp /tmp/mutant-err-XXXXXX)
cd /verif && VERIF_REPO="$wt" ./check "$prop" "$tier" > "$out" 2> "$err"; rc=$?
cd /; git -C /repo worktree remove --force "$wt"; git -C /repo worktree prune
echo "exit=$rc"; grep -a -c "^VIOLATION" "$out"; grep -a -A3 "^VIOLATION" "$out" | cut -c1-400 | head -16; tail -2 "$err"
cp "$out" /tmp/mutant.out; cp "$err" /tmp/mutant.err; rm -f "$out" "$err"
