#!/bin/sh
# usage: try_mutant.sh <patch.diff> <property> [tier]   -- applies the patch to /repo, runs the check, reverts.
patch="$1"; prop="$2"; tier="${3:-quick}"
cd /repo || exit 2
if ! git apply --check "$patch" 2>/dev/null; then
  if ! git apply --3way $APPLY_OPTS "$patch" 2>/tmp/apply.err; then echo "PATCH DOES NOT APPLY: $patch"; cat /tmp/apply.err | head -5; git reset -q HEAD; git checkout -- . ; exit 3; fi
else
  git apply "$patch"
fi
cd /verif && ./check "$prop" "$tier" > /tmp/mutant.out 2>/tmp/mutant.err; rc=$?
cd /repo && git reset -q HEAD && git checkout -- . && git status --short | head -3
echo "exit=$rc"; grep -a -c "^VIOLATION" /tmp/mutant.out; grep -a -A3 "^VIOLATION" /tmp/mutant.out | cut -c1-400 | head -16; tail -2 /tmp/mutant.err
