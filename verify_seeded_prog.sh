#!/bin/bash
# usage: verify_seeded_prog.sh <dir with patch.diff and demo/> [go run flags]
# Confirms a seeded change whose demonstration is a standalone program: in a
# scratch worktree of /repo's HEAD the patch applies, the tree builds, the
# unedited suite passes, the demo FAILs with the patch and PASSes without.
d=$(readlink -f "$1"); shift; flags="$@"
export GOFLAGS=-mod=mod GOPROXY=off GOSUMDB=off GOTOOLCHAIN=local
id=$(echo "$d" | tr '/' '_')
wt=/tmp/wtv$id
git -C /repo worktree remove --force $wt >/dev/null 2>&1; rm -rf $wt
git -C /repo worktree add -f $wt HEAD >/dev/null 2>&1 || { echo "worktree failed"; exit 2; }
cd $wt
if ! git apply --check $d/patch.diff 2>/dev/null; then echo "$d apply=conflict"; cd /; git -C /repo worktree remove --force $wt; exit 0; fi
git apply $d/patch.diff
build=ok; go build ./... >/dev/null 2>&1 || build=FAIL
suite=$(go test -vet=off -count=1 -timeout 25m ./... 2>&1 | grep -c "^FAIL\|^---")
demo=/tmp/wtvdemo$id; rm -rf $demo; cp -r $d/demo $demo
sed -i "s#^replace github.com/goccy/go-json => .*#replace github.com/goccy/go-json => $wt#" $demo/go.mod
cp $wt/go.sum $demo/go.sum
with=$(cd $demo && timeout 600 go run $flags . 2>&1 | grep -a "PASS\|FAIL" | head -1 | cut -c1-80)
git checkout -- . 2>/dev/null
without=$(cd $demo && timeout 600 go run $flags . 2>&1 | grep -a "PASS\|FAIL" | head -1 | cut -c1-80)
echo "$d apply=clean build=$build suite_failures=$suite demo_with=[$with] demo_without=[$without]"
cd /; rm -rf $demo; git -C /repo worktree remove --force $wt
