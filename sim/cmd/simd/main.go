// simd is the driver of the deterministic simulation checks (see /verif/DESIGN.md).
//
//	simd check  -prop C09 -tier quick|thorough [-seed N] [-j 16] [-plans N]
//	simd replay -file replays/C09-1-xxxx.json
//	simd selftest -prop C09 [-seeds 40]
//
// Exit status: 0 = the property held on everything explored (KNOWN-FINDING
// lines for listed findings), 1 = VIOLATION lines printed, 2 = infrastructure
// trouble (build failure, harness race, watchdog without confirmation).
package main

import (
	"sync/atomic"
	"encoding/json"
	"flag"
	"fmt"
	"os"
	"path/filepath"
	"runtime"
	"sort"
	"strconv"
	"strings"
	"sync"
	"time"

	"vsim/plan"
)

var (
	verifDir = "/verif"
	repoDir  = "/repo"
)

func envInt(name string, def int64) int64 {
	if s := os.Getenv(name); s != "" {
		if n, err := strconv.ParseInt(s, 10, 64); err == nil {
			return n
		}
	}
	return def
}

// variantsFor lists the build variants a property is checked in.
func variantsFor(prop, tier string) []string {
	switch prop {
	// plain-cp: built with the compiler's pointer checking (-d=checkptr, what
	// -race switches on as well): unsafe pointer arithmetic that leaves its
	// allocation is a fatal error there
	case "C09":
		return []string{"plain", "plain-b16", "plain-b96", "plain-cp"}
	case "C06", "C12":
		return []string{"plain", "plain-b96", "plain-cp"}
	case "C11":
		return []string{"plain", "plain-cp"}
	case "C19", "C20":
		return []string{"plain", "inst-race"}
	case "C10":
		return []string{"inst", "inst-race"}
	case "C14":
		// plain-pop: the same worker with another population of types
		return []string{"plain", "plain-pop", "pie", "inst", "inst-race"}
	}
	return []string{"plain"}
}

func main() {
	if len(os.Args) < 2 {
		fmt.Fprintln(os.Stderr, "usage: simd check|replay|selftest ...")
		os.Exit(2)
	}
	if d := os.Getenv("VERIF_DIR"); d != "" {
		verifDir = d
	}
	if d := os.Getenv("VERIF_REPO"); d != "" {
		repoDir = d
	}
	switch os.Args[1] {
	case "check":
		os.Exit(cmdCheck(os.Args[2:]))
	case "replay":
		os.Exit(cmdReplay(os.Args[2:]))
	case "selftest":
		os.Exit(cmdSelftest(os.Args[2:]))
	case "build":
		// development aid: simd build <variant> <out>: one worker binary
		if len(os.Args) < 4 {
			fmt.Fprintln(os.Stderr, "usage: simd build <variant> <out>")
			os.Exit(2)
		}
		b, err := newBuilder(repoDir, filepath.Join(verifDir, "sim"))
		if err != nil {
			fmt.Fprintln(os.Stderr, err)
			os.Exit(2)
		}
		defer b.cleanup()
		v, err := b.build(os.Args[2])
		if err != nil {
			fmt.Fprintln(os.Stderr, err)
			os.Exit(2)
		}
		data, _ := os.ReadFile(v.Bin)
		if err := os.WriteFile(os.Args[3], data, 0o755); err != nil {
			fmt.Fprintln(os.Stderr, err)
			os.Exit(2)
		}
		b.cleanup()
		return
	default:
		fmt.Fprintln(os.Stderr, "unknown command", os.Args[1])
		os.Exit(2)
	}
}

type stats struct {
	mu          sync.Mutex
	plans       int
	cases       int64
	steps       int64
	faults      map[string]int64
	probes      map[string]int64
	planHashes  map[string]bool
	nontrivial  map[string]bool
	interleave  map[string]bool
	switches    int64
	yields      uint64
	excluded    int64
	samples     []json.RawMessage
	perVariant  map[string]int
	simTimeHist map[string]int64
	unstable    int
}

func newStats() *stats {
	return &stats{faults: map[string]int64{}, probes: map[string]int64{}, planHashes: map[string]bool{}, nontrivial: map[string]bool{},
		interleave: map[string]bool{}, perVariant: map[string]int{}}
}

func (s *stats) add(oc *outcome) {
	s.mu.Lock()
	defer s.mu.Unlock()
	s.plans++
	s.perVariant[oc.Variant]++
	if oc.Res == nil {
		return
	}
	s.cases += oc.Res.Cases
	s.steps += oc.Res.Steps
	for k, v := range oc.Res.Faults {
		s.faults[k] += v
	}
	for k, v := range oc.Res.Probes {
		s.probes[k] += v
	}
	key := oc.Variant + "|" + oc.PlanHash
	s.planHashes[key] = true
	if oc.Nontriv {
		s.nontrivial[key] = true
	}
	if oc.Res.Interleave != "" && oc.Res.Switches > 0 {
		s.interleave[oc.Res.Interleave] = true
	}
	s.switches += int64(oc.Res.Switches)
	s.yields += oc.Res.Yields
	s.excluded += oc.Res.Excluded
	if len(s.samples) < 3 {
		if len(oc.Res.Samples) > 0 {
			s.samples = append(s.samples, oc.Res.Samples[0])
		} else if oc.Plan != nil {
			b, _ := json.Marshal(summarisePlan(oc.Plan))
			s.samples = append(s.samples, b)
		}
	}
}

// summarisePlan keeps sample plans in the evidence file readable.
func summarisePlan(p *plan.Plan) interface{} {
	q := *p
	if len(q.Sessions) > 3 {
		q.Sessions = q.Sessions[:3]
	}
	for i := range q.Sessions {
		s := q.Sessions[i]
		steps := append([]plan.Step(nil), s.Steps...)
		if len(steps) > 6 {
			steps = steps[:6]
		}
		for j := range steps {
			if len(steps[j].Doc) > 120 {
				steps[j].Doc = append(append([]byte(nil), steps[j].Doc[:120]...), "…"...)
			}
			if steps[j].Reader != nil && len(steps[j].Reader.Data) > 120 {
				rd := *steps[j].Reader
				rd.Data = append(append([]byte(nil), rd.Data[:120]...), "…"...)
				steps[j].Reader = &rd
			}
		}
		q.Sessions[i].Steps = steps
	}
	if len(q.Order) > 40 {
		q.Order = q.Order[:40]
	}
	if len(q.Stream) > 2 {
		q.Stream = q.Stream[:2]
	}
	return &q
}

type foundViolation struct {
	V       plan.Violation
	Variant string
	Plan    *plan.Plan
	Seed    int64
	Index   int
}

func cmdCheck(args []string) int {
	fs := flag.NewFlagSet("check", flag.ExitOnError)
	prop := fs.String("prop", "", "property id")
	tier := fs.String("tier", os.Getenv("VERIF_TIER"), "quick|thorough")
	seed := fs.Int64("seed", envInt("VERIF_SEED", 1), "base seed")
	jobs := fs.Int("j", runtime.NumCPU(), "parallel workers")
	nplans := fs.Int("plans", 0, "override the number of plans")
	triage := fs.Bool("triage", false, "print every distinct violation signature with an example instead of stopping early")
	noShrink := fs.Bool("noshrink", false, "do not minimise")
	onlyVariant := fs.String("variant", "", "restrict to one build variant")
	fs.Parse(args)
	if *tier == "" {
		*tier = "quick"
	}
	t0 := time.Now()
	// replay files of earlier runs stay (somebody may still want to replay what
	// an earlier run printed); only old ones and a surplus beyond 60 are removed
	if old, _ := filepath.Glob(filepath.Join(verifDir, "replays", *prop+"-*.json")); len(old) > 0 {
		type fi struct {
			name string
			mod  time.Time
		}
		var fis []fi
		for _, f := range old {
			if st, err := os.Stat(f); err == nil {
				fis = append(fis, fi{f, st.ModTime()})
			}
		}
		sort.Slice(fis, func(i, j int) bool { return fis[i].mod.After(fis[j].mod) })
		for i, f := range fis {
			if i >= 60 || time.Since(f.mod) > 12*time.Hour {
				os.Remove(f.name)
			}
		}
	}
	b, err := newBuilder(repoDir, filepath.Join(verifDir, "sim"))
	if err != nil {
		fmt.Fprintln(os.Stderr, "scratch:", err)
		return 2
	}
	defer b.cleanup()
	timeout := 60 * time.Second
	if *tier == "thorough" {
		timeout = 180 * time.Second
	}
	rn := newRunner(b, timeout)

	var variants []*variant
	names := variantsFor(*prop, *tier)
	if *onlyVariant != "" {
		names = []string{*onlyVariant} // (development: any variant, also unlisted ones)
	}
	for _, name := range names {
		v, err := b.build(name)
		if err != nil {
			fmt.Fprintln(os.Stderr, "BUILD FAILED (infrastructure, not a verdict):", err)
			return 2
		}
		variants = append(variants, v)
	}
	// number of plans
	n := *nplans
	if n == 0 {
		info := rawStdout(variants[0], "describe", "-prop", *prop, "-tier", *tier)
		var d struct {
			Plans int `json:"plans"`
		}
		if json.Unmarshal([]byte(info), &d) != nil || d.Plans == 0 {
			fmt.Fprintln(os.Stderr, "cannot obtain plan count:", info)
			return 2
		}
		n = d.Plans
	}
	fmt.Fprintf(os.Stderr, "[check] property %s tier %s seed %d: %d plans x %d variants on %d workers\n", *prop, *tier, *seed, n, len(variants), *jobs)

	st := newStats()
	kfTriage := loadKnownFindings(filepath.Join(verifDir, "known_findings.json"))
	type job struct {
		v   *variant
		idx int
	}
	jobsCh := make(chan job, 256)
	var wg sync.WaitGroup
	var fmu sync.Mutex
	var found []foundViolation
	var infra []string
	sigSeen := map[string]int{}
	preKnown := map[string]*knownFinding{}
	stop := false
	for w := 0; w < *jobs; w++ {
		wg.Add(1)
		go func() {
			defer wg.Done()
			for j := range jobsCh {
				fmu.Lock()
				if stop {
					fmu.Unlock()
					continue
				}
				fmu.Unlock()
				oc := rn.runPlan(j.v, *prop, *seed, j.idx, *tier, nil)
				if oc.Skipped {
					continue
				}
				st.add(oc)
				fmu.Lock()
				if oc.Infra != "" {
					infra = append(infra, oc.Infra)
				}
				for _, v := range oc.Viols {
					if *triage || v.Case != nil {
						if k := kfTriage.matchV(*prop, j.v.Name, &v, oc.Plan); k != nil {
							sigSeen["(known "+k.ID+")"]++
							if v.Case != nil {
								preKnown[k.ID] = k
							}
							continue
						}
					}
					sigSeen[v.Sig]++
					if all := os.Getenv("VERIF_TRIAGE_ALL"); all != "" && strings.HasPrefix(v.Sig, all) {
						fmt.Printf("ALL [%s idx %d] %s :: %s\n", j.v.Name, j.idx, clip(v.Where, 200), clip(v.Detail, 300))
					}
					if sigSeen[v.Sig] <= 2 {
						found = append(found, foundViolation{V: v, Variant: j.v.Name, Plan: oc.Plan, Seed: *seed, Index: j.idx})
					}
				}
				if !*triage && len(found) >= 24 {
					stop = true
				}
				for _, v := range oc.Viols {
					if v.Oracle == "hang" && sigSeen["hang"] >= 2 {
						stop = true // every further hanging plan costs two watchdog periods
						atomic.StoreInt32(&rn.abort, 1)
					}
				}
				fmu.Unlock()
			}
		}()
	}
	for _, v := range variants {
		for i := 0; i < n; i++ {
			jobsCh <- job{v, i}
		}
	}
	close(jobsCh)
	wg.Wait()

	if len(infra) > 0 {
		fmt.Fprintln(os.Stderr, "INFRASTRUCTURE TROUBLE (exit 2, not a verdict):")
		for _, s := range infra {
			fmt.Fprintln(os.Stderr, s)
		}
		return 2
	}

	if *triage {
		type kv struct {
			k string
			n int
		}
		var kvs []kv
		for k, n := range sigSeen {
			kvs = append(kvs, kv{k, n})
		}
		sort.Slice(kvs, func(i, j int) bool { return kvs[i].k < kvs[j].k })
		fmt.Printf("TRIAGE: %d distinct signatures\n", len(kvs))
		for _, e := range kvs {
			fmt.Printf("%6d  %s\n", e.n, e.k)
			for _, f := range found {
				if f.V.Sig == e.k {
					fmt.Printf("          e.g. [%s idx %d] %s\n               %s\n", f.Variant, f.Index, clip(f.V.Where, 160), clip(strings.ReplaceAll(f.V.Detail, "\n", "\n               "), 900))
					break
				}
			}
		}
	}

	// minimise, match against known findings, write replay files
	kf := loadKnownFindings(filepath.Join(verifDir, "known_findings.json"))
	exit := 0
	violations := 0
	unstable := 0
	knownHit := map[string]bool{}
	var pk []string
	for id := range preKnown {
		pk = append(pk, id)
	}
	sort.Strings(pk)
	for _, id := range pk {
		knownHit[id] = true
		fmt.Printf("KNOWN-FINDING: property=%s %s: %s\n", *prop, id, preKnown[id].What)
	}
	reported := map[string]bool{}
	sort.SliceStable(found, func(i, j int) bool {
		if found[i].Index != found[j].Index {
			return found[i].Index < found[j].Index
		}
		return found[i].V.Sig < found[j].V.Sig
	})
	var vmap = map[string]*variant{}
	for _, v := range variants {
		vmap[v.Name] = v
	}
	type rpOut struct {
		f     foundViolation
		rp    *Replay
		known *knownFinding
	}
	var todo []foundViolation
	for _, f := range found {
		if reported[f.V.Sig] {
			continue
		}
		reported[f.V.Sig] = true
		todo = append(todo, f)
	}
	outs := make([]rpOut, len(todo))
	var rwg sync.WaitGroup
	rsem := make(chan struct{}, 8)
	for i, f := range todo {
		i, f := i, f
		rwg.Add(1)
		rsem <- struct{}{}
		go func() {
			defer rwg.Done()
			defer func() { <-rsem }()
			// stream violations carry their concrete case: match before shrinking,
			// so that minimisation cannot move a finding into or out of a listed class
			if f.V.Case != nil {
				if k := kf.matchV(*prop, f.Variant, &f.V, f.Plan); k != nil {
					outs[i] = rpOut{f: f, known: k}
					return
				}
			}
			rp := makeReplay(rn, vmap[f.Variant], f, !*noShrink && !*triage, *tier)
			var k *knownFinding
			if f.V.Case == nil {
				k = kf.match(*prop, rp)
			}
			outs[i] = rpOut{f: f, rp: rp, known: k}
		}()
	}
	rwg.Wait()
	for _, o := range outs {
		f := o.f
		if o.known != nil {
			k := o.known
			if !knownHit[k.ID] {
				knownHit[k.ID] = true
				fmt.Printf("KNOWN-FINDING: property=%s %s: %s\n", *prop, k.ID, k.What)
			}
			continue
		}
		rp := o.rp
		if !rp.Reproduced && (rp.Violation.Oracle == "isolation" || rp.Violation.Oracle == "cold_nondeterminism") {
			// An observation difference that two further runs of the very same plan
			// in fresh processes do not show is not evidence of history dependence:
			// the observation itself is unstable (Go map order somewhere). It is
			// inconclusive: counted in the evidence, shown on stderr, not reported.
			unstable++
			fmt.Fprintf(os.Stderr, "[check] inconclusive (not reproduced in 2 fresh runs of the same plan): %s plan %d %s: %s\n", f.Variant, f.Index, rp.Violation.Sig, clip(rp.Violation.Detail, 300))
			continue
		}
		violations++
		path := filepath.Join(verifDir, "replays", fmt.Sprintf("%s-%d-%s.json", *prop, *seed, plan.HashOf(rp)[:10]))
		os.MkdirAll(filepath.Dir(path), 0o755)
		data, _ := json.MarshalIndent(rp, "", " ")
		os.WriteFile(path, data, 0o644)
		if !*triage || violations <= 40 {
			fmt.Printf("VIOLATION property=%s replay=%s\n", *prop, path)
			fmt.Printf("  oracle=%s variant=%s seed=%d plan=%d sig=%s\n  %s\n  %s\n", rp.Violation.Oracle, rp.Variant, f.Seed, f.Index, rp.Violation.Sig,
				clip(rp.Violation.Where, 300), clip(strings.ReplaceAll(rp.Violation.Detail, "\n", "\n  "), 1500))
		}
		exit = 1
	}

	st.unstable = unstable
	writeEvidence(*prop, *tier, *seed, st, rn, variants, violations, len(knownHit), time.Since(t0), n)
	fmt.Fprintf(os.Stderr, "[check] %s %s: %d plans, %d cases, %d violations, %d known findings, %.1fs\n", *prop, *tier, st.plans, st.cases, violations, len(knownHit), time.Since(t0).Seconds())
	return exit
}
