package main

import (
	"encoding/json"
	"flag"
	"fmt"
	"os"
	"os/exec"
	"path/filepath"
	"regexp"
	"sort"
	"strings"
	"sync"
	"time"
	"unicode/utf8"

	"vsim/plan"
)

// ---------------------------------------------------------------- known findings

type knownFinding struct {
	ID       string `json:"id"`
	Property string `json:"property"`
	What     string `json:"what"`
	// Match: every non-empty field must match the minimised violation.
	Oracle   string `json:"oracle,omitempty"`
	Sig      string `json:"sig,omitempty"`      // exact signature
	WhereRe  string `json:"where_re,omitempty"` // regexp over Where
	DetailRe string `json:"detail_re,omitempty"`
	DocRe    string `json:"doc_re,omitempty"` // regexp over the bytes of the failing stream document / step documents
	// DocPred: a predicate over the bytes of the failing document(s):
	// "has_nul" (contains a NUL byte), "invalid_utf8" (contains ill-formed UTF-8).
	DocPred string `json:"doc_pred,omitempty"`
	Variant string `json:"variant,omitempty"`
}

type knownFile struct {
	Known []knownFinding `json:"known"`
	Fixed []string       `json:"fixed"`
}

func loadKnownFindings(path string) *knownFile {
	kf := &knownFile{}
	data, err := os.ReadFile(path)
	if err != nil {
		return kf
	}
	if err := json.Unmarshal(data, kf); err != nil {
		fmt.Fprintln(os.Stderr, "known_findings.json is not valid JSON:", err)
		os.Exit(2)
	}
	return kf
}

func planDocs(p *plan.Plan) string {
	var sb strings.Builder
	for _, f := range p.Stream {
		doc := append([]byte(nil), f.Pad...)
		for i, part := range f.Parts {
			doc = append(doc, part...)
			if i < len(f.Seps) {
				doc = append(doc, f.Seps[i]...)
			}
		}
		sb.Write(doc)
		sb.WriteString("\n")
	}
	for _, s := range p.Sessions {
		for _, st := range s.Steps {
			sb.Write(st.Doc)
			sb.WriteString("\n")
			if st.Reader != nil {
				sb.Write(st.Reader.Data)
				sb.WriteString("\n")
			}
		}
	}
	return sb.String()
}

func (kf *knownFile) match(prop string, rp *Replay) *knownFinding {
	return kf.matchV(prop, rp.Variant, &rp.Violation, rp.Plan)
}

// matchV matches one violation; for stream violations the failing document is
// the one of the concrete case attached to the violation.
func (kf *knownFile) matchV(prop, variant string, v *plan.Violation, p *plan.Plan) *knownFinding {
	docs := func() string {
		if v.Case != nil {
			return planDocs(&plan.Plan{Stream: []plan.StreamFamily{*v.Case}})
		}
		if p != nil {
			return planDocs(p)
		}
		return ""
	}
	for i := range kf.Known {
		k := &kf.Known[i]
		if k.Property != prop {
			continue
		}
		if k.Oracle != "" && k.Oracle != v.Oracle {
			continue
		}
		if k.Sig != "" && k.Sig != v.Sig {
			continue
		}
		if k.Variant != "" && k.Variant != variant {
			continue
		}
		if k.WhereRe != "" && !regexp.MustCompile(k.WhereRe).MatchString(v.Where) {
			continue
		}
		if k.DetailRe != "" && !regexp.MustCompile(k.DetailRe).MatchString(v.Detail) {
			continue
		}
		if k.DocRe != "" && !regexp.MustCompile(k.DocRe).MatchString(docs()) {
			continue
		}
		switch k.DocPred {
		case "":
		case "has_nul":
			if !strings.Contains(docs(), "\x00") {
				continue
			}
		case "invalid_utf8":
			if utf8.ValidString(docs()) {
				continue
			}
		default:
			continue
		}
		return k
	}
	return nil
}

// ---------------------------------------------------------------- evidence

var levelOf = map[string]string{
	"C09": "fault_enumeration",
}

func writeEvidence(prop, tier string, seed int64, st *stats, rn *runner, variants []*variant, violations, known int, wall time.Duration, nplans int) {
	var covFuncs map[string]string
	var covZero []string
	if tier == "thorough" || os.Getenv("VERIF_COVER") != "" {
		covFuncs, covZero = coverageProbes(rn, prop, tier, seed, 150)
	}
	level := levelOf[prop]
	if level == "" {
		level = "exploration"
	}
	var vnames []string
	for _, v := range variants {
		vnames = append(vnames, v.Name)
	}
	perHour := float64(st.plans) / wall.Hours()
	var zero []string
	for k, v := range st.probes {
		if v == 0 {
			zero = append(zero, k)
		}
	}
	sort.Strings(zero)
	samples := []interface{}{}
	for _, s := range st.samples {
		var x interface{}
		json.Unmarshal(s, &x)
		samples = append(samples, x)
	}
	if len(samples) == 0 {
		samples = append(samples, "no plan finished")
	}
	cov := map[string]interface{}{
		"evaluations":                        st.plans,
		"distinct_nontrivial":                len(st.nontrivial),
		"rule":                               ruleText(prop),
		"samples":                            samples,
		"stream_cases_or_steps":              st.cases,
		"logical_steps_simulated_time":       st.steps,
		"note_simulated_time":                "go-json has no clock; simulated time is the logical step counter (reader calls, API steps, yield points)",
		"plans_per_hour":                     int64(perHour),
		"seeds":                              fmt.Sprintf("base seed %d, plan seeds derived as (base, property, index) for index 0..%d", seed, nplans-1),
		"faults_fired":                       st.faults,
		"reach_probes":                       st.probes,
		"probes_at_zero":                     zero,
		"anchor_function_statement_coverage": covFuncs,
		"anchor_functions_never_reached":     covZero,
		"note_coverage":                      "statement coverage of the anchor functions measured with Go's coverage instrumentation on a sample of 150 plans (variant plain-cover); only in the thorough tier or with VERIF_COVER=1",
		"distinct_plans":                     len(st.planHashes),
		"distinct_interleavings":             len(st.interleave),
		"interleaving_measure":               "hash of the sequence of (yield counter, site, from-task, to-task) of all task switches of a run",
		"task_switches":                      st.switches,
		"yield_points_passed":                st.yields,
		"cold_reference_runs":                rn.coldRuns,
		"sessions_excluded_because_they_die_even_alone": st.excluded,
		"variants":           vnames,
		"plans_per_variant":  st.perVariant,
		"known_findings_hit": known,
		"inconclusive_unreproduced_observation_differences": st.unstable,
		"real_components": []string{"all of go-json (built from /repo's working tree)", "Go runtime, garbage collector, race detector (race variants)"},
		"stub_components": stubText(vnames),
		"exhaustive":      false,
	}
	ev := map[string]interface{}{
		"property_id": prop,
		"tier":        tier,
		"seed":        seed,
		"level":       level,
		"coverage":    cov,
		"assumptions": assumptionsFor(prop),
		"wall_s":      wall.Seconds(),
		"violations":  violations,
	}
	data, _ := json.MarshalIndent(ev, "", " ")
	dir := filepath.Join(verifDir, "evidence")
	os.MkdirAll(dir, 0o755)
	os.WriteFile(filepath.Join(dir, prop+".json"), data, 0o644)
}

func stubText(variants []string) []string {
	out := []string{"io.Reader / io.Writer given to the library (SimReader, SimWriter)", "user callbacks (scripted Marshaler/Unmarshaler types)", "goroutine scheduler (seeded cooperative scheduler, GOMAXPROCS=1)"}
	for _, v := range variants {
		if strings.HasPrefix(v, "inst") {
			out = append(out, "sync.Pool / sync.Mutex / sync.RWMutex / sync.Once replaced by verifsim types in the instrumented scratch copy (variants inst*)")
			break
		}
	}
	return out
}

func ruleText(prop string) string {
	switch prop {
	case "C09":
		return "plan = list of stream families; phase A enumerates for every catalogue document of <=48 bytes and several destination types every single cut, every pair of cuts, piece sizes 1..17 and a fault (transient, permanent, error-with-data, early EOF) at every byte position; phase B aligns every byte of token-rich snippets with the refill boundaries; phase C is seeded (long/multi-document streams, biased cuts, mixed faults, op scripts). A plan counts as distinct by plan hash and non-trivial if at least one fault kind (split, short read, error, ...) actually fired in it."
	case "C10":
		return "plan = 2..8 tasks (sessions of API steps) run under the seeded scheduler on an instrumented scratch copy; distinct by plan hash, non-trivial if at least one task switch happened at a yield point."
	case "C14":
		return "plan = sweep over the types listed in the binary's typelinks table (plus reflect-created types) in a seeded order, or concurrent first use under the scheduler; distinct by plan hash, non-trivial if more than one type was processed."
	}
	return "plan = sessions of public-API steps interleaved by a seeded order (and, in the scheduler variants, at yield points); every session is compared with the same session run alone as the first thing in a fresh OS process; distinct by plan hash, non-trivial if it interleaves at least two sessions or a fault (failing step, GC event, reader/writer fault, callback fault) actually fired."
}

func assumptionsFor(prop string) []string {
	a := []string{
		"sampling, not proof: a clean batch is evidence for the explored plans only",
		"GOMAXPROCS=1: effects that need two cores at the same instant or a weak memory model are out of reach",
		"the Go toolchain, runtime, race detector and encoding/json (used only as document generator and for 'merely incomplete'/offset questions) are trusted",
	}
	switch prop {
	case "C09":
		a = append(a, "documents are sampled (catalogue + grammar + mutants), chunkings of short documents are enumerated")
	case "C10", "C14", "C19", "C20":
		a = append(a, "yield points are inserted syntactically (locks, atomics, pools, package variables, stores through selectors); interleavings inside other statements are reached only through the race detector's happens-before analysis")
	}
	return a
}

// ---------------------------------------------------------------- selftest (determinism)

// cmdSelftest runs plans several times in separate processes and compares the
// complete results (observations, counters, event-log hashes).
func cmdSelftest(args []string) int {
	fs := flag.NewFlagSet("selftest", flag.ExitOnError)
	prop := fs.String("prop", "", "property id")
	tier := fs.String("tier", "quick", "tier")
	seeds := fs.Int("seeds", 40, "number of plans")
	reps := fs.Int("reps", 3, "runs per plan")
	seed := fs.Int64("seed", envInt("VERIF_SEED", 1), "base seed")
	jobs := fs.Int("j", 16, "parallelism")
	fs.Parse(args)
	b, err := newBuilder(repoDir, filepath.Join(verifDir, "sim"))
	if err != nil {
		return 2
	}
	defer b.cleanup()
	rn := newRunner(b, 120*time.Second)
	bad := 0
	total := 0
	for _, name := range variantsFor(*prop, *tier) {
		v, err := b.build(name)
		if err != nil {
			fmt.Fprintln(os.Stderr, err)
			return 2
		}
		var mu sync.Mutex
		sem := make(chan struct{}, *jobs)
		var wg sync.WaitGroup
		for i := 0; i < *seeds; i++ {
			i := i
			wg.Add(1)
			sem <- struct{}{}
			go func() {
				defer wg.Done()
				defer func() { <-sem }()
				var first string
				for r := 0; r < *reps; r++ {
					info := rn.exec(v, 120*time.Second, "exec", "-prop", *prop, "-seed", fmt.Sprint(*seed), "-index", fmt.Sprint(i*7), "-tier", *tier, "-noplan", "-variant", v.Name)
					out := "<died>" + fatalClass(fatalSummary(info.Stderr))
					if info.Out != nil {
						// compared: observations, violations, the schedule (who yielded
						// where to whom), fault counters. Not compared: the global yield
						// counter and what depends on it (go-json ranges over Go maps
						// while compiling; the number of yield points passed inside
						// such loops is not under the simulator's control).
						res := *info.Out.Result
						res.Yields, res.Steps = 0, 0
						sl := append([]plan.Point(nil), res.SwitchList...)
						for k := range sl {
							sl[k].At = 0
						}
						res.SwitchList = sl
						if res.Faults != nil {
							f := map[string]int64{}
							for k, v := range res.Faults {
								// (alias32_descriptors_in_window: where the Go heap places a
								// descriptor depends on when the runtime takes stack and span
								// pages; the placement adversary is a bias, not a decision)
								if k != "cache_returns_checked" && k != "distinct_programs" && k != "alias32_descriptors_in_window" {
									f[k] = v
								}
							}
							res.Faults = f
						}
						bb, _ := json.Marshal(&res)
						out = string(bb)
					}
					for _, lg := range info.RaceLogs {
						for _, rep := range parseRaceLog(lg) {
							out += "|race:" + rep.Key
						}
					}
					mu.Lock()
					total++
					if r == 0 {
						first = out
					} else if out != first {
						bad++
						fmt.Printf("NONDETERMINISM variant=%s plan=%d rep=%d differing keys: %s\n", v.Name, i*7, r, diffKeys(first, out))
					}
					mu.Unlock()
				}
			}()
		}
		wg.Wait()
	}
	fmt.Printf("selftest %s: %d runs, %d divergences\n", *prop, total, bad)
	if bad > 0 {
		return 1
	}
	return 0
}

func diffKeys(a, b string) string {
	var x, y map[string]json.RawMessage
	if json.Unmarshal([]byte(a), &x) != nil || json.Unmarshal([]byte(b), &y) != nil {
		return "(not comparable) " + clip(a, 200) + " | " + clip(b, 200)
	}
	var ks []string
	for k, v := range x {
		if string(y[k]) != string(v) {
			ks = append(ks, k+": "+clip(string(v), 160)+" | "+clip(string(y[k]), 160))
		}
	}
	sort.Strings(ks)
	return strings.Join(ks, "\n      ")
}

// anchorFuncs: the functions named in the property anchors whose branches the
// simulation is supposed to reach; their statement coverage (Go's own
// coverage instrumentation, variant plain-cover, a sample of the plans) is
// reported as reach probes, a probe at 0 % is listed as a warning.
var anchorFuncs = map[string][]string{
	"C09": {"read", "readBuf", "literalBytes", "stringBytes", "decodeEscapeString", "decodeUnicodeRune", "readAtLeast", "skipValue", "skipObject", "skipArray", "decodeKeyNotFoundStream", "decodeKeyCharByEscapeCharStream", "decodeKeyCharByUnicodeRuneStream", "floatBytes", "Token", "More", "PrepareForDecode", "Buffered", "ReadErr"},
	"C06": {"skipValue", "skipObject", "skipArray", "compactValue", "indentValue", "Build", "buildQuoteSelector", "buildIndex", "AssignValue", "castValue", "validateEndBuf", "read"},
	"C11": {"TakeRuntimeContext", "ReleaseRuntimeContext", "Init", "getFilteredCodeSetIfNeeded", "extractFromPath", "NewMapContext", "ReleaseMapContext", "releaseSlice", "newSlice"},
	"C12": {"unmarshal", "marshal", "marshalIndent", "readBuf", "reset", "releaseSlice", "copySlice", "unquoteBytes"},
	"C10": {"CompileToGetCodeSet", "CompileToGetDecoder", "compileToGetCodeSetSlowPath", "compileToGetDecoderSlowPath", "storeOpcodeSet", "storeDecoder", "getQueryCache", "setQueryCache", "Hash"},
	"C14": {"CompileToGetCodeSet", "CompileToGetDecoder", "compileToGetCodeSetSlowPath", "compileToGetDecoderSlowPath", "AnalyzeTypeAddr", "initEncoder", "initDecoder"},
	"C19": {"getFilteredCodeSetIfNeeded", "Filter", "Hash", "getQueryCache", "setQueryCache", "Build", "QueryString"},
	"C20": {"extractFromPath", "DecodePath", "Field", "Index", "Get", "Build", "buildSelector", "buildIndex", "buildQuoteSelector", "buildPathRecursive"},
}

// coverageProbes runs a sample of plans on the cover variant and returns the
// statement coverage of the anchor functions.
func coverageProbes(rn *runner, prop, tier string, seed int64, sample int) (map[string]string, []string) {
	v, err := rn.b.build("plain-cover")
	if err != nil {
		return map[string]string{"error": err.Error()}, nil
	}
	dir := filepath.Join(rn.b.scratch, "covdata")
	os.MkdirAll(dir, 0o755)
	var wg sync.WaitGroup
	sem := make(chan struct{}, 16)
	for i := 0; i < sample; i++ {
		i := i
		wg.Add(1)
		sem <- struct{}{}
		go func() {
			defer wg.Done()
			defer func() { <-sem }()
			rn.execEnv(v, rn.timeout, []string{"GOCOVERDIR=" + dir, "VERIF_STEP_BUDGET=" + rn.stepBudget().String()},
				"exec", "-prop", prop, "-seed", fmt.Sprint(seed), "-index", fmt.Sprint(i*3), "-tier", tier, "-noplan", "-variant", "plain")
		}()
	}
	wg.Wait()
	cmd := exec.Command("go", "tool", "covdata", "func", "-i="+dir)
	cmd.Env = goEnv()
	out, err := cmd.Output()
	if err != nil {
		return map[string]string{"error": "go tool covdata: " + err.Error()}, nil
	}
	want := map[string]bool{}
	for _, f := range anchorFuncs[prop] {
		want[f] = true
	}
	res := map[string]string{}
	var zero []string
	for _, line := range strings.Split(string(out), "\n") {
		fs := strings.Fields(line)
		if len(fs) != 3 || !strings.Contains(fs[0], "goccy/go-json") {
			continue
		}
		name := fs[1]
		if i := strings.LastIndex(name, ")."); i >= 0 {
			name = name[i+2:] // method: (*Stream).read
		} else if i := strings.LastIndex(name, "."); i >= 0 {
			name = name[i+1:]
		}
		if !want[name] {
			continue
		}
		loc := fs[0]
		if i := strings.Index(loc, "go-json"); i >= 0 {
			loc = loc[i+len("go-json"):]
			if j := strings.Index(loc, "/"); j >= 0 {
				loc = loc[j+1:]
			}
		}
		loc = strings.TrimSuffix(loc, ":")
		key := fs[1] + " (" + loc + ")"
		res[key] = fs[2]
		if fs[2] == "0.0%" {
			zero = append(zero, key)
		}
	}
	sort.Strings(zero)
	os.RemoveAll(dir)
	return res, zero
}
