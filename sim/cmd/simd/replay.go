package main

import (
	"encoding/json"
	"flag"
	"fmt"
	"os"
	"os/exec"
	"path/filepath"
	"regexp"
	"strings"
	"time"

	"vsim/plan"
)

type Replay struct {
	Property   string         `json:"property"`
	Variant    string         `json:"variant"`
	Seed       int64          `json:"seed"`
	Index      int            `json:"index"`
	Violation  plan.Violation `json:"violation"`
	Reproduced bool           `json:"reproduced_in_fresh_process"`
	Minimised  bool           `json:"minimised"`
	Tried      int            `json:"shrink_candidates_tried"`
	Kept       int            `json:"shrink_candidates_kept"`
	Plan       *plan.Plan     `json:"plan"`
	How        string         `json:"how_to_replay"`
}

func rawStdout(v *variant, args ...string) string {
	cmd := exec.Command(v.Bin, args...)
	out, _ := cmd.Output()
	return string(out)
}

func findSig(oc *outcome, sig string) *plan.Violation {
	for i := range oc.Viols {
		if oc.Viols[i].Sig == sig {
			return &oc.Viols[i]
		}
	}
	return nil
}

func clonePlan(p *plan.Plan) *plan.Plan {
	b, _ := json.Marshal(p)
	q := &plan.Plan{}
	json.Unmarshal(b, q)
	return q
}

// makeReplay confirms the violation in a fresh process and minimises the plan
// while the same signature persists.
func makeReplay(rn *runner, v *variant, f foundViolation, shrink bool, tier string) *Replay {
	rp := &Replay{Property: f.Plan.Prop, Variant: f.Variant, Seed: f.Seed, Index: f.Index, Violation: f.V,
		How: "cd /verif && ./check " + f.Plan.Prop + " --replay <this file>"}
	cur := clonePlan(f.Plan)
	sig := f.V.Sig
	try := func(p *plan.Plan) *plan.Violation {
		rp.Tried++
		// candidates of a hang are not confirmed one by one
		oc := rn.runPlanX(v, p.Prop, p.Seed, p.Index, "", p, sig == "hang")
		return findSig(oc, sig)
	}
	if f.V.Oracle == "isolation" || f.V.Oracle == "cold_nondeterminism" {
		// the reproduction runs compare with cold references computed afresh
		rn.forgetCold(v, f.Plan)
	}
	// stream violations carry their concrete case
	if f.V.Case != nil {
		c := clonePlan(f.Plan)
		c.Stream = []plan.StreamFamily{*f.V.Case}
		if got := try(c); got != nil {
			cur = c
			rp.Reproduced = true
			rp.Violation = *got
		}
	}
	for attempt := 0; attempt < 2 && !rp.Reproduced; attempt++ {
		if got := try(cur); got != nil {
			rp.Reproduced = true
			rp.Violation = *got
		}
	}
	rp.Plan = cur
	if !rp.Reproduced || !shrink {
		return rp
	}
	budget := 25 * time.Second
	if tier == "thorough" {
		budget = 120 * time.Second
	}
	deadline := time.Now().Add(budget)
	progress := true
	for progress && time.Now().Before(deadline) && rp.Tried < 400 {
		progress = false
		for _, cand := range shrinkCandidates(cur, rp.Violation) {
			if time.Now().After(deadline) {
				break
			}
			if got := try(cand); got != nil {
				cur = cand
				rp.Violation = *got
				rp.Kept++
				progress = true
				break
			}
		}
	}
	rp.Minimised = true
	rp.Plan = cur
	return rp
}

var sessRe = regexp.MustCompile(`session (\S+)`)

// shrinkCandidates proposes structurally smaller plans, most aggressive first.
func shrinkCandidates(p *plan.Plan, v plan.Violation) []*plan.Plan {
	var out []*plan.Plan
	add := func(mut func(q *plan.Plan) bool) {
		q := clonePlan(p)
		if mut(q) {
			out = append(out, q)
		}
	}
	switch p.Mode {
	case "stream":
		if len(p.Stream) > 1 {
			for i := range p.Stream {
				i := i
				add(func(q *plan.Plan) bool { q.Stream = []plan.StreamFamily{q.Stream[i]}; return true })
			}
			return out
		}
		if len(p.Stream) == 1 {
			f := p.Stream[0]
			if len(f.Pad) > 0 {
				add(func(q *plan.Plan) bool { q.Stream[0].Pad = nil; return true })
				add(func(q *plan.Plan) bool { q.Stream[0].Pad = q.Stream[0].Pad[:len(f.Pad)/2]; return true })
			}
			// (candidates are whole clones of the plan: for long lists of parts or
			// deliveries only chunks are dropped, or the clones of a multi-megabyte
			// document times thousands of list entries exhaust the memory)
			chunks := func(n int) [][2]int {
				var out [][2]int
				if n <= 24 {
					for i := 0; i < n; i++ {
						out = append(out, [2]int{i, i + 1})
					}
					return out
				}
				for _, k := range []int{2, 8} {
					for j := 0; j < k; j++ {
						out = append(out, [2]int{j * n / k, (j + 1) * n / k})
					}
				}
				return out
			}
			if len(f.Parts) > 1 {
				for _, c := range chunks(len(f.Parts)) {
					a, b := c[0], c[1]
					if b-a >= len(f.Parts) {
						continue
					}
					add(func(q *plan.Plan) bool {
						s := &q.Stream[0]
						s.Parts = append(s.Parts[:a:a], s.Parts[b:]...)
						if a < len(s.Seps) {
							hi := b
							if hi > len(s.Seps) {
								hi = len(s.Seps)
							}
							s.Seps = append(s.Seps[:a:a], s.Seps[hi:]...)
						}
						return true
					})
				}
			}
			for _, c := range chunks(len(f.Del)) {
				a, b := c[0], c[1]
				add(func(q *plan.Plan) bool {
					s := &q.Stream[0]
					sum := 0
					for i := a; i < b; i++ {
						if s.Del[i].Err != "" {
							return false // keep the fault
						}
						sum += s.Del[i].N
					}
					if b < len(s.Del) {
						// merge with the next delivery
						s.Del[b].N += sum
					}
					s.Del = append(s.Del[:a:a], s.Del[b:]...)
					return true
				})
			}
			if len(f.Flags) > 0 {
				add(func(q *plan.Plan) bool { q.Stream[0].Flags = nil; return true })
			}
			if f.Scribble {
				add(func(q *plan.Plan) bool { q.Stream[0].Scribble = false; return true })
			}
			if len(f.Ops) > 1 {
				add(func(q *plan.Plan) bool { q.Stream[0].Ops = q.Stream[0].Ops[:len(f.Ops)-1]; return true })
			}
			for i := range f.Del {
				i := i
				if f.Del[i].Scribble {
					add(func(q *plan.Plan) bool { q.Stream[0].Del[i].Scribble = false; return true })
				}
			}
		}
	case "sessions":
		target := ""
		if m := sessRe.FindStringSubmatch(v.Where); m != nil {
			target = m[1]
		}
		// drop whole sessions
		if len(p.Sessions) > 1 {
			// keep only the target and one other
			for i := range p.Sessions {
				i := i
				if p.Sessions[i].ID == target {
					continue
				}
				add(func(q *plan.Plan) bool { dropSession(q, i); return true })
			}
		}
		if len(p.Order) > 0 {
			add(func(q *plan.Plan) bool { q.Order = nil; return true })
			add(func(q *plan.Plan) bool {
				var o []int
				for _, x := range q.Order {
					if x >= 0 {
						o = append(o, x)
					}
				}
				if len(o) == len(q.Order) {
					return false
				}
				q.Order = o
				return true
			})
		}
		if len(p.Sched.Points) > 0 {
			add(func(q *plan.Plan) bool { q.Sched.Points = nil; return true })
			for i := range p.Sched.Points {
				i := i
				add(func(q *plan.Plan) bool {
					q.Sched.Points = append(q.Sched.Points[:i:i], q.Sched.Points[i+1:]...)
					return true
				})
			}
		}
		if p.Sched.Prob != [4]uint32{} && len(p.Sched.Points) > 0 {
			add(func(q *plan.Plan) bool { q.Sched.Prob = [4]uint32{}; return true })
		}
		if p.Config.PoolPolicy != "" {
			add(func(q *plan.Plan) bool { q.Config.PoolPolicy = ""; return true })
		}
		// drop steps (last first), halves first
		for si := range p.Sessions {
			si := si
			n := len(p.Sessions[si].Steps)
			if n > 3 {
				add(func(q *plan.Plan) bool { dropSteps(q, si, n/2, n); return true })
				if !isConstructor(p.Sessions[si].Steps[0].Op) {
					add(func(q *plan.Plan) bool { dropSteps(q, si, 0, n/2); return true })
				}
			}
		}
		for si := range p.Sessions {
			si := si
			n := len(p.Sessions[si].Steps)
			if n <= 1 {
				continue
			}
			for k := n - 1; k >= 0; k-- {
				k := k
				if isConstructor(p.Sessions[si].Steps[k].Op) {
					continue // a session keeps the constructor of the handle it uses
				}
				add(func(q *plan.Plan) bool { dropSteps(q, si, k, k+1); return true })
			}
		}
	case "typesweep":
		if p.Sweep != nil && len(p.Sweep.OnlyName) > 1 {
			n := len(p.Sweep.OnlyName)
			add(func(q *plan.Plan) bool {
				q.Sweep.OnlyName = append([]string(nil), q.Sweep.OnlyName[n/2:]...)
				return true
			})
			add(func(q *plan.Plan) bool {
				q.Sweep.OnlyName = append([]string(nil), q.Sweep.OnlyName[:n/2]...)
				return true
			})
			if n <= 12 {
				for i := 0; i < n; i++ {
					i := i
					add(func(q *plan.Plan) bool {
						q.Sweep.OnlyName = append(append([]string(nil), q.Sweep.OnlyName[:i]...), q.Sweep.OnlyName[i+1:]...)
						return true
					})
				}
			}
		}
		if p.Sweep != nil && len(p.Sweep.Only) > 1 {
			n := len(p.Sweep.Only)
			add(func(q *plan.Plan) bool { q.Sweep.Only = q.Sweep.Only[n/2:]; return true })
			add(func(q *plan.Plan) bool { q.Sweep.Only = q.Sweep.Only[:n/2]; return true })
			if n <= 12 {
				for i := 0; i < n; i++ {
					i := i
					add(func(q *plan.Plan) bool { q.Sweep.Only = append(q.Sweep.Only[:i:i], q.Sweep.Only[i+1:]...); return true })
				}
			}
		}
	}
	return out
}

func isConstructor(op string) bool {
	switch op {
	case "path_new", "query_new", "query_build", "enc_new", "dec_new", "val_new":
		return true
	}
	return false
}

func dropSession(q *plan.Plan, i int) {
	q.Sessions = append(q.Sessions[:i:i], q.Sessions[i+1:]...)
	var o []int
	for _, x := range q.Order {
		switch {
		case x < 0:
			o = append(o, x)
		case x == i:
		case x > i:
			o = append(o, x-1)
		default:
			o = append(o, x)
		}
	}
	q.Order = o
	for k := range q.Sched.Points {
		if q.Sched.Points[k].To > i {
			q.Sched.Points[k].To--
		} else if q.Sched.Points[k].To == i {
			q.Sched.Points[k].To = -1
		}
	}
}

// dropSteps removes steps [from,to) of session si. Steps that create a handle
// used later are kept by the worker's own validation: a plan whose handle is
// missing simply does not reproduce and the candidate is rejected.
func dropSteps(q *plan.Plan, si, from, to int) {
	s := &q.Sessions[si]
	removed := to - from
	s.Steps = append(s.Steps[:from:from], s.Steps[to:]...)
	// remove the same number of occurrences of si from Order, from the matching positions
	seen := 0
	var o []int
	for _, x := range q.Order {
		if x == si {
			if seen >= from && seen < to && removed > 0 {
				seen++
				continue
			}
			seen++
		}
		o = append(o, x)
	}
	q.Order = o
}

func cmdReplay(args []string) int {
	fs := flag.NewFlagSet("replay", flag.ExitOnError)
	file := fs.String("file", "", "replay file")
	fs.Parse(args)
	if *file == "" && fs.NArg() > 0 {
		*file = fs.Arg(0)
	}
	data, err := os.ReadFile(*file)
	if err != nil {
		fmt.Fprintln(os.Stderr, err)
		return 2
	}
	var rp Replay
	if err := json.Unmarshal(data, &rp); err != nil || rp.Plan == nil {
		fmt.Fprintln(os.Stderr, "not a replay file:", err)
		return 2
	}
	b, err := newBuilder(repoDir, filepath.Join(verifDir, "sim"))
	if err != nil {
		fmt.Fprintln(os.Stderr, err)
		return 2
	}
	defer b.cleanup()
	v, err := b.build(rp.Variant)
	if err != nil {
		fmt.Fprintln(os.Stderr, "BUILD FAILED:", err)
		return 2
	}
	rn := newRunner(b, 180*time.Second)
	oc := rn.runPlan(v, rp.Plan.Prop, rp.Plan.Seed, rp.Plan.Index, "", rp.Plan)
	if oc.Infra != "" {
		fmt.Fprintln(os.Stderr, oc.Infra)
		return 2
	}
	if len(oc.Viols) == 0 {
		fmt.Printf("replay of %s: no violation (the recorded one was %s)\n", *file, rp.Violation.Sig)
		return 0
	}
	same := false
	for _, vi := range oc.Viols {
		if vi.Sig == rp.Violation.Sig {
			same = true
		}
		fmt.Printf("VIOLATION property=%s replay=%s\n  oracle=%s sig=%s\n  %s\n  %s\n", rp.Property, *file, vi.Oracle, vi.Sig, clip(vi.Where, 300), clip(strings.ReplaceAll(vi.Detail, "\n", "\n  "), 2000))
	}
	if same {
		fmt.Println("  (same signature as recorded: reproduced exactly)")
	}
	return 1
}
