package main

import (
	"sync/atomic"
	"bytes"
	"context"
	"encoding/json"
	"fmt"
	"os"
	"os/exec"
	"path/filepath"
	"regexp"
	"runtime"
	"sort"
	"strings"
	"sync"
	"time"

	"vsim/plan"
)

type workerOut struct {
	Plan   *plan.Plan   `json:"plan,omitempty"`
	Result *plan.Result `json:"result"`
}

type runInfo struct {
	Out      *workerOut
	Stderr   string
	ExitErr  error
	TimedOut bool
	Dur      time.Duration
	RaceLogs []string
}

type runner struct {
	b        *builder
	timeout  time.Duration
	memoMu   sync.Mutex
	memo     map[string]*coldRef
	inflight map[string]chan struct{}
	tmpSeq   int
	seqMu    sync.Mutex
	coldRuns int64
	coldMu   sync.Mutex
	sweeps   map[string]*sweepPrep
	buildMu  sync.Mutex
	// gate: ordinary worker runs hold it shared; the confirmation run of a
	// suspected hang holds it exclusively, so that it is not slowed down by the
	// sixteen other workers of this very check
	gate sync.RWMutex
	// abort: set once the check has decided to stop early; pending
	// confirmations of suspected hangs are abandoned
	abort int32
}

type coldRef struct {
	Obs    []string
	Nondet [][]string // set when the three cold runs disagree
	Fatal  string
}

func newRunner(b *builder, timeout time.Duration) *runner {
	return &runner{b: b, timeout: timeout, memo: map[string]*coldRef{}, inflight: map[string]chan struct{}{}}
}

func (r *runner) tmpName(prefix string) string {
	r.seqMu.Lock()
	r.tmpSeq++
	n := r.tmpSeq
	r.seqMu.Unlock()
	d := filepath.Join(r.b.scratch, "tmp")
	os.MkdirAll(d, 0o755)
	return filepath.Join(d, fmt.Sprintf("%s-%d", prefix, n))
}

func (r *runner) stepBudget() time.Duration {
	if r.timeout > 100*time.Second {
		return 60 * time.Second
	}
	return 20 * time.Second
}

// exec runs one worker process.
func (r *runner) exec(v *variant, timeout time.Duration, args ...string) *runInfo {
	return r.execEnv(v, timeout, []string{"VERIF_STEP_BUDGET=" + r.stepBudget().String()}, args...)
}

func (r *runner) execEnv(v *variant, timeout time.Duration, extraEnv []string, args ...string) *runInfo {
	r.gate.RLock()
	defer r.gate.RUnlock()
	return r.execRaw(v, timeout, extraEnv, args...)
}

// loadFactor: how much slower than normal this machine currently is for one
// more process (1-minute load average over the number of CPUs), between 1 and 3.
func loadFactor() float64 {
	data, err := os.ReadFile("/proc/loadavg")
	if err != nil {
		return 1
	}
	var l1 float64
	fmt.Sscanf(string(data), "%f", &l1)
	f := l1 / float64(runtime.NumCPU())
	if f < 1 {
		return 1
	}
	if f > 3 {
		return 3
	}
	return f
}

// execExclusive: no other worker of this check runs at the same time.
func (r *runner) execExclusive(v *variant, timeout time.Duration, extraEnv []string, args ...string) *runInfo {
	r.gate.Lock()
	defer r.gate.Unlock()
	return r.execRaw(v, timeout, extraEnv, args...)
}

func (r *runner) execRaw(v *variant, timeout time.Duration, extraEnv []string, args ...string) *runInfo {
	ctx, cancel := context.WithTimeout(context.Background(), timeout)
	defer cancel()
	cmd := exec.CommandContext(ctx, v.Bin, args...)
	var stdout, stderr bytes.Buffer
	cmd.Stdout = &stdout
	cmd.Stderr = &stderr
	env := append(os.Environ(), "GOMAXPROCS=1", "GOTRACEBACK=single")
	env = append(env, extraEnv...)
	if strings.HasPrefix(v.Name, "inst") {
		// the list of yield sites of this build: the generator aims explicit
		// change points at real class-A sites
		env = append(env, "VERIF_SITES="+filepath.Join(v.Dir, "sites.json"))
	}
	info := &runInfo{}
	var raceBase string
	if strings.Contains(v.Name, "race") {
		raceBase = r.tmpName("race")
		env = append(env, "GORACE=log_path="+raceBase+" halt_on_error=0 history_size=5 atexit_sleep_ms=0")
	}
	cmd.Env = env
	cmd.Dir = r.b.scratch
	t0 := time.Now()
	err := cmd.Run()
	info.Dur = time.Since(t0)
	info.Stderr = stderr.String()
	if ctx.Err() == context.DeadlineExceeded {
		info.TimedOut = true
	}
	info.ExitErr = err
	if raceBase != "" {
		files, _ := filepath.Glob(raceBase + ".*")
		for _, f := range files {
			data, _ := os.ReadFile(f)
			info.RaceLogs = append(info.RaceLogs, string(data))
			os.Remove(f)
		}
	}
	if stdout.Len() > 0 {
		var o workerOut
		if jerr := json.Unmarshal(stdout.Bytes(), &o); jerr == nil && o.Result != nil {
			info.Out = &o
		}
	}
	return info
}

func tailLines(s string, n int) string {
	lines := strings.Split(strings.TrimRight(s, "\n"), "\n")
	if len(lines) > n {
		lines = lines[len(lines)-n:]
	}
	return strings.Join(lines, "\n")
}

func headLines(s string, n int) string {
	lines := strings.Split(strings.TrimRight(s, "\n"), "\n")
	if len(lines) > n {
		lines = lines[:n]
	}
	return strings.Join(lines, "\n")
}

var addrRe = regexp.MustCompile(`0x[0-9a-fA-F]+`)

func fatalSummary(stderr string) string {
	// first "fatal error:" / "panic:" / "SIGSEGV" line plus a few frames
	lines := strings.Split(stderr, "\n")
	for i, l := range lines {
		if strings.HasPrefix(l, "fatal error:") || strings.HasPrefix(l, "panic:") || strings.Contains(l, "SIGSEGV") || strings.HasPrefix(l, "runtime:") {
			end := i + 14
			if end > len(lines) {
				end = len(lines)
			}
			return strings.Join(lines[i:end], "\n")
		}
	}
	return tailLines(stderr, 12)
}

// ---------------------------------------------------------------- plan runs

type outcome struct {
	Variant  string
	Index    int
	Plan     *plan.Plan
	Res      *plan.Result
	Viols    []plan.Violation
	Infra    string // infrastructure trouble (exit 2)
	Dur      time.Duration
	Nontriv  bool
	PlanHash string
	Skipped  bool // not examined (the check was already stopping)
}

// runPlan executes a plan (generated from prop/seed/index, or given) in a fresh
// worker and applies the driver-level oracles.
func (r *runner) runPlan(v *variant, prop string, seed int64, index int, tier string, given *plan.Plan) *outcome {
	return r.runPlanX(v, prop, seed, index, tier, given, false)
}

// runPlanX: with noConfirm a hang is taken at face value (shrinking a hang).
func (r *runner) runPlanX(v *variant, prop string, seed int64, index int, tier string, given *plan.Plan, noConfirm bool) *outcome {
	oc := &outcome{Variant: v.Name, Index: index}
	var args []string
	var planFile string
	if given == nil && prop == "C14" {
		// sweeps need the list of types that die even alone (filled by the driver)
		if gp := r.genPlan(v, prop, seed, index, tier); gp != nil && gp.Mode == "typesweep" {
			if len(gp.Sweep.OnlyName) > 0 {
				gp.Sweep.OnlyName = r.withoutExcludedNames(v, gp.Sweep)
			} else {
				gp.Sweep.Exclude = r.sweepExcluded(v)
			}
			given = gp
		}
	}
	if given != nil {
		planFile = r.tmpName("plan") + ".json"
		data, _ := json.Marshal(given)
		os.WriteFile(planFile, data, 0o644)
		defer os.Remove(planFile)
		args = []string{"exec", "-plan", planFile, "-variant", v.Name}
	} else {
		args = []string{"exec", "-prop", prop, "-seed", fmt.Sprint(seed), "-index", fmt.Sprint(index), "-tier", tier, "-variant", v.Name}
	}
	info := r.exec(v, r.timeout, args...)
	oc.Dur = info.Dur
	if info.Out == nil && strings.Contains(info.Stderr, "step watchdog:") {
		// the worker's own step watchdog fired: same treatment as the outer one
		info.TimedOut = true
	}
	getPlan := func() *plan.Plan {
		if given != nil {
			return given
		}
		if info.Out != nil && info.Out.Plan != nil {
			return info.Out.Plan
		}
		return r.genPlan(v, prop, seed, index, tier)
	}
	if info.TimedOut {
		// confirm with a larger budget in a fresh process
		hangMsg := tailLines(info.Stderr, 2)
		if noConfirm {
			oc.Plan = getPlan()
			oc.Viols = append(oc.Viols, plan.Violation{Oracle: "hang", Where: "worker", Sig: "hang", Detail: "(shrinking candidate) " + hangMsg})
			return oc
		}
		if atomic.LoadInt32(&r.abort) != 0 {
			// the check is stopping (two hangs are already confirmed): not examined
			oc.Plan = getPlan()
			oc.Skipped = true
			return oc
		}
		// confirmation: four times the budget, more on a machine that other jobs
		// keep busy (an exclusive confirmation run was tried and dropped: a change
		// that makes many plans slow but not endless then serialises the check)
		lf := loadFactor()
		info2 := r.execEnv(v, time.Duration(4*lf*float64(r.timeout)), []string{"VERIF_STEP_BUDGET=" + time.Duration(4*lf*float64(r.stepBudget())).String()}, args...)
		if info2.Out == nil && strings.Contains(info2.Stderr, "step watchdog:") {
			info2.TimedOut = true
			hangMsg = tailLines(info2.Stderr, 2)
		}
		if !info2.TimedOut {
			// a slow machine, not a hang: carry on with the second run
			info = info2
		} else {
			oc.Plan = getPlan()
			oc.Viols = append(oc.Viols, plan.Violation{Oracle: "hang", Where: "worker", Sig: "hang",
				Detail: fmt.Sprintf("the run did not finish (confirmed in a fresh process with four times the budget): %s", strings.TrimSpace(hangMsg))})
			return oc
		}
	}
	if info.Out == nil {
		oc.Plan = getPlan()
		if oc.Plan == nil {
			oc.Infra = "worker produced no result and the plan could not be regenerated: " + tailLines(info.Stderr, 10)
			return oc
		}
		sum := fatalSummary(info.Stderr)
		// A session that already panics inside the library (or dies) when it is
		// run alone in a fresh process reads or writes memory it should not:
		// whether that ends in a recoverable panic or in a fatal error depends on
		// what the memory happens to hold. Such a death is not history
		// dependence (it is C01/C08 territory); it is counted and excluded.
		if oc.Plan.Mode == "sessions" && prop != "C06" {
			for k := range oc.Plan.Sessions {
				ref := r.cold(v, oc.Plan, k)
				if ref.Fatal != "" || hasLibraryPanic(ref.Obs) {
					oc.Res = &plan.Result{PlanHash: oc.Plan.Hash(), Excluded: 1}
					oc.PlanHash = oc.Res.PlanHash
					return oc
				}
			}
		}
		oc.Viols = append(oc.Viols, plan.Violation{Oracle: "fatal", Where: "worker died: " + fmt.Sprint(info.ExitErr), Sig: "fatal|" + fatalClass(sum),
			Detail: addrRe.ReplaceAllString(sum, "0xADDR")})
		return oc
	}
	oc.Plan = getPlan()
	oc.Res = info.Out.Res()
	oc.PlanHash = oc.Res.PlanHash
	oc.Viols = append(oc.Viols, oc.Res.Violations...)
	if oc.Res.Deadlock {
		oc.Viols = append(oc.Viols, plan.Violation{Oracle: "deadlock", Where: "scheduler", Sig: "deadlock",
			Detail: "no task can run: every unfinished task is blocked on a lock held or awaited by another one"})
	}
	// race reports
	for _, lg := range info.RaceLogs {
		for _, rep := range parseRaceLog(lg) {
			if rep.LibSide {
				oc.Viols = append(oc.Viols, plan.Violation{Oracle: "race", Where: rep.Where, Sig: "race|" + rep.Key, Detail: rep.Text})
			} else if !oc.Res.Deadlock {
				// (after a deadlock the parked tasks never hand their state over)
				oc.Infra = "race report with harness frames only:\n" + rep.Text
			}
		}
	}
	// isolation oracle
	if oc.Plan != nil && oc.Plan.Mode == "sessions" && prop != "C06" && oc.Plan.Prop != "C06" {
		// (C06's oracle is "the call returns", not what it returns)
		r.isolation(v, oc)
	}
	if oc.Plan != nil && oc.Plan.Mode == "typesweep" {
		if sw := oc.Plan.Sweep; sw != nil && len(sw.OnlyName) > 0 {
			r.crossPopulation(v, oc, planFile)
		} else {
			r.sweepIsolation(v, oc)
		}
	}
	nt := false
	for _, n := range oc.Res.Faults {
		if n > 0 {
			nt = true
		}
	}
	if oc.Res.Switches > 0 || len(oc.Plan.Sessions) > 1 || (oc.Plan.Sweep != nil && oc.Res.Cases > 1) {
		nt = true
	}
	oc.Nontriv = nt
	return oc
}

func (o *workerOut) Res() *plan.Result { return o.Result }

func hasLibraryPanic(obs []string) bool {
	for _, o := range obs {
		if strings.Contains(o, "panic: runtime error") || strings.Contains(o, "panic: reflect:") {
			return true
		}
	}
	return false
}

func fatalClass(sum string) string {
	first := strings.SplitN(sum, "\n", 2)[0]
	first = addrRe.ReplaceAllString(first, "0xADDR")
	if len(first) > 80 {
		first = first[:80]
	}
	return first
}

// isolation compares every session of the plan with its cold reference.
func (r *runner) isolation(v *variant, oc *outcome) {
	p := oc.Plan
	for k := range p.Sessions {
		s := &p.Sessions[k]
		got, ok := oc.Res.Obs[s.ID]
		if !ok {
			continue
		}
		ref := r.cold(v, p, k)
		if ref.Fatal != "" {
			// the session dies even alone: not history dependence; counted, not reported here
			oc.Res.Excluded++
			continue
		}
		if ref.Nondet != nil {
			oc.Viols = append(oc.Viols, plan.Violation{Oracle: "cold_nondeterminism", Where: "session " + s.ID, Sig: "cold_nondeterminism",
				Detail: fmt.Sprintf("three fresh processes disagree on the same session: %v", firstDiffs(ref.Nondet))})
			continue
		}
		if d := diffObs(ref.Obs, got); d != "" {
			idx := firstDiffIndex(ref.Obs, got)
			op := "?"
			if idx < len(s.Steps) {
				op = s.Steps[idx].Op
			}
			oc.Viols = append(oc.Viols, plan.Violation{Oracle: "isolation", Where: fmt.Sprintf("session %s step %d (%s)", s.ID, idx, op),
				Sig: "isolation|" + op, Detail: d})
		}
	}
}

func firstDiffIndex(a, b []string) int {
	n := len(a)
	if len(b) < n {
		n = len(b)
	}
	for i := 0; i < n; i++ {
		if a[i] != b[i] {
			return i
		}
	}
	return n
}

func clip(s string, n int) string {
	if len(s) > n {
		return s[:n] + fmt.Sprintf("…(+%d bytes)", len(s)-n)
	}
	return s
}

func diffObs(want, got []string) string {
	i := firstDiffIndex(want, got)
	if i == len(want) && i == len(got) {
		return ""
	}
	w, g := "<missing>", "<missing>"
	if i < len(want) {
		w = want[i]
	}
	if i < len(got) {
		g = got[i]
	}
	// show the region around the first differing byte
	j := 0
	for j < len(w) && j < len(g) && w[j] == g[j] {
		j++
	}
	st := j - 60
	if st < 0 {
		st = 0
	}
	return fmt.Sprintf("step %d: alone in a fresh process: %s\n         in this history:          %s\n         (first difference at byte %d)", i, clip(w[st:], 400), clip(g[st:], 400), j)
}

func firstDiffs(runs [][]string) string {
	var sb strings.Builder
	for i := 1; i < len(runs); i++ {
		if d := diffObs(runs[0], runs[i]); d != "" {
			sb.WriteString(d)
			break
		}
	}
	return sb.String()
}

// cold returns the memoised observation list of session k executed alone as
// the first thing in a fresh process (three times; all must agree).
func (r *runner) cold(v *variant, p *plan.Plan, k int) *coldRef {
	key := v.Hash + "|" + plan.HashOf(p.Sessions[k])
	for {
		r.memoMu.Lock()
		if ref, ok := r.memo[key]; ok {
			r.memoMu.Unlock()
			return ref
		}
		if ch, busy := r.inflight[key]; busy {
			r.memoMu.Unlock()
			<-ch
			continue
		}
		ch := make(chan struct{})
		r.inflight[key] = ch
		r.memoMu.Unlock()

		ref := r.computeCold(v, p, k)

		r.memoMu.Lock()
		r.memo[key] = ref
		delete(r.inflight, key)
		r.memoMu.Unlock()
		close(ch)
		return ref
	}
}

// forgetCold drops the memoised cold references of the sessions of a plan: a
// difference found against a memoised reference is re-examined against
// references computed afresh.
func (r *runner) forgetCold(v *variant, p *plan.Plan) {
	if p == nil {
		return
	}
	r.memoMu.Lock()
	for k := range p.Sessions {
		delete(r.memo, v.Hash+"|"+plan.HashOf(p.Sessions[k]))
	}
	r.memoMu.Unlock()
}

func (r *runner) computeCold(v *variant, p *plan.Plan, k int) *coldRef {
	iso := *p
	iso.Sessions = []plan.Session{p.Sessions[k]}
	iso.Order = nil
	iso.Tasks = false
	iso.Sched = plan.Sched{}
	iso.Config.PoolPolicy = ""
	f := r.tmpName("cold") + ".json"
	data, _ := json.Marshal(&iso)
	os.WriteFile(f, data, 0o644)
	defer os.Remove(f)
	var runs [][]string
	for i := 0; i < coldRepeats; i++ {
		var obs []string
		for attempt := 0; ; attempt++ {
			info := r.exec(v, r.timeout, "exec", "-plan", f, "-noplan", "-variant", v.Name)
			r.coldMu.Lock()
			r.coldRuns++
			r.coldMu.Unlock()
			if info.Out == nil {
				return &coldRef{Fatal: fatalSummary(info.Stderr)}
			}
			obs = info.Out.Result.Obs[p.Sessions[k].ID]
			if len(obs) > 0 || len(p.Sessions[k].Steps) == 0 {
				break
			}
			// A reference run that reports nothing for a session with steps is
			// trouble of the harness or the machine (met once, on a machine loaded
			// three times over), never an observation: retried, then given up.
			if attempt >= 2 {
				fmt.Fprintf(os.Stderr, "[check] cold reference of session %s returned no observation three times: session excluded\n", p.Sessions[k].ID)
				return &coldRef{Fatal: "cold reference run returned no observation (harness trouble)"}
			}
		}
		runs = append(runs, obs)
	}
	for i := 1; i < len(runs); i++ {
		if diffObs(runs[0], runs[i]) != "" {
			return &coldRef{Nondet: runs}
		}
	}
	return &coldRef{Obs: runs[0]}
}

var coldRepeats = 3

func (r *runner) genPlan(v *variant, prop string, seed int64, index int, tier string) *plan.Plan {
	cmd := exec.Command(v.Bin, "gen", "-prop", prop, "-seed", fmt.Sprint(seed), "-index", fmt.Sprint(index), "-tier", tier, "-variant", v.Name)
	cmd.Env = append(os.Environ(), "GOMAXPROCS=1")
	out, err := cmd.Output()
	if err != nil {
		return nil
	}
	p := &plan.Plan{}
	if json.Unmarshal(out, p) != nil {
		return nil
	}
	return p
}

// ---------------------------------------------------------------- type sweeps (C14)

type sweepPrep struct {
	once     sync.Once
	excluded []int
	count    int
	names    []string
}

func (r *runner) prep(v *variant) *sweepPrep {
	r.memoMu.Lock()
	if r.sweeps == nil {
		r.sweeps = map[string]*sweepPrep{}
	}
	sp := r.sweeps[v.Name]
	if sp == nil {
		sp = &sweepPrep{}
		r.sweeps[v.Name] = sp
	}
	r.memoMu.Unlock()
	return sp
}

// sweepExcluded computes, once per variant, the cold reference of every type
// of the population (each alone in a fresh process) and returns the indices
// of the types on which go-json dies even alone: those are C01/C08 territory
// and are excluded from the sweeps (and counted).
func (r *runner) sweepExcluded(v *variant) []int {
	sp := r.prep(v)
	sp.once.Do(func() {
		var d struct {
			SweepTypes int      `json:"sweep_types"`
			Names      []string `json:"sweep_names"`
		}
		json.Unmarshal([]byte(rawStdout(v, "describe", "-prop", "C14")), &d)
		sp.count = d.SweepTypes
		sp.names = d.Names
		var mu sync.Mutex
		var wg sync.WaitGroup
		sem := make(chan struct{}, 16)
		for i := 0; i < d.SweepTypes; i++ {
			i := i
			wg.Add(1)
			sem <- struct{}{}
			go func() {
				defer wg.Done()
				defer func() { <-sem }()
				ref := r.coldSweep(v, fmt.Sprintf("t%d", i), nil)
				if ref.Fatal != "" {
					mu.Lock()
					sp.excluded = append(sp.excluded, i)
					mu.Unlock()
				}
			}()
		}
		wg.Wait()
		sort.Ints(sp.excluded)
		fmt.Fprintf(os.Stderr, "[sweep] variant %s: %d types in the population, %d die even alone and are excluded\n", v.Name, d.SweepTypes, len(sp.excluded))
	})
	return sp.excluded
}

// withoutExcludedNames: a cross-population batch without the types that die
// even alone in one of the two binaries.
func (r *runner) withoutExcludedNames(v *variant, sw *plan.Sweep) []string {
	bad := map[string]bool{}
	mark := func(w *variant) {
		ex := r.sweepExcluded(w)
		sp := r.prep(w)
		for _, i := range ex {
			if i < len(sp.names) {
				bad[sp.names[i]] = true
			}
		}
	}
	mark(v)
	if sw.Cross != "" && sw.Cross != v.Name {
		r.buildMu.Lock()
		vb, err := r.b.build(sw.Cross)
		r.buildMu.Unlock()
		if err == nil {
			mark(vb)
		}
	}
	var out []string
	for _, n := range sw.OnlyName {
		if !bad[n] {
			out = append(out, n)
		}
	}
	return out
}

func (r *runner) coldSweep(v *variant, key string, p *plan.Plan) *coldRef {
	mkey := v.Hash + "|sweep|" + key
	if strings.HasPrefix(key, "r") && p != nil {
		if p.Sweep.Alias32 {
			mkey += fmt.Sprintf("|alias|%d|%d", (p.Sweep.Seed^0xABCD)%4, p.Sweep.Reflect)
		} else {
			mkey += fmt.Sprintf("|%d|%d", p.Sweep.Seed, p.Sweep.Reflect)
		}
	}
	r.memoMu.Lock()
	if ref, ok := r.memo[mkey]; ok {
		r.memoMu.Unlock()
		return ref
	}
	r.memoMu.Unlock()
	q := &plan.Plan{Prop: "C14", Mode: "typesweep", Sweep: &plan.Sweep{}}
	var n int
	if strings.HasPrefix(key, "t") {
		fmt.Sscanf(key, "t%d", &n)
		q.Sweep.Only = []int{n}
	} else {
		fmt.Sscanf(key, "r%d:", &n)
		q.Sweep.OnlyR = []int{n}
		q.Sweep.Only = []int{-1}
		q.Sweep.Seed = p.Sweep.Seed
		q.Sweep.Reflect = p.Sweep.Reflect
		q.Sweep.Alias32 = p.Sweep.Alias32
	}
	f := r.tmpName("coldsweep") + ".json"
	data, _ := json.Marshal(q)
	os.WriteFile(f, data, 0o644)
	defer os.Remove(f)
	info := r.exec(v, r.timeout, "exec", "-plan", f, "-noplan", "-variant", v.Name)
	r.coldMu.Lock()
	r.coldRuns++
	r.coldMu.Unlock()
	var ref *coldRef
	if info.Out == nil {
		ref = &coldRef{Fatal: fatalSummary(info.Stderr)}
	} else {
		ref = &coldRef{Obs: info.Out.Result.Obs[key]}
	}
	r.memoMu.Lock()
	r.memo[mkey] = ref
	r.memoMu.Unlock()
	return ref
}

func (r *runner) sweepIsolation(v *variant, oc *outcome) {
	keys := make([]string, 0, len(oc.Res.Obs))
	for k := range oc.Res.Obs {
		keys = append(keys, k)
	}
	sort.Strings(keys)
	for _, k := range keys {
		ref := r.coldSweep(v, k, oc.Plan)
		if ref.Fatal != "" {
			oc.Res.Excluded++
			continue
		}
		if d := diffObs(ref.Obs, oc.Res.Obs[k]); d != "" {
			oc.Viols = append(oc.Viols, plan.Violation{Oracle: "isolation", Where: fmt.Sprintf("type %s (%s)", k, first(oc.Res.Obs[k])), Sig: "isolation|sweep",
				Detail: d})
			if len(oc.Viols) > 6 {
				return
			}
		}
	}
}

// crossPopulation runs the same batch of types in the binary of the variant
// named by Sweep.Cross and compares what was observed per type.
func (r *runner) crossPopulation(v *variant, oc *outcome, planFile string) {
	sw := oc.Plan.Sweep
	if sw.Cross == "" || sw.Cross == v.Name {
		return
	}
	r.buildMu.Lock()
	vb, err := r.b.build(sw.Cross)
	r.buildMu.Unlock()
	if err != nil {
		oc.Infra = "cross variant " + sw.Cross + ": " + err.Error()
		return
	}
	info := r.exec(vb, r.timeout, "exec", "-plan", planFile, "-noplan", "-variant", vb.Name)
	if info.Out == nil {
		sum := fatalSummary(info.Stderr)
		oc.Viols = append(oc.Viols, plan.Violation{Oracle: "fatal", Where: "worker of variant " + vb.Name + " died: " + fmt.Sprint(info.ExitErr), Sig: "fatal|" + fatalClass(sum),
			Detail: addrRe.ReplaceAllString(sum, "0xADDR")})
		return
	}
	other := info.Out.Result.Obs
	keys := make([]string, 0, len(oc.Res.Obs))
	for k := range oc.Res.Obs {
		keys = append(keys, k)
	}
	sort.Strings(keys)
	for _, k := range keys {
		ob, ok := other[k]
		if !ok {
			continue
		}
		if d := diffObs(oc.Res.Obs[k], ob); d != "" {
			oc.Viols = append(oc.Viols, plan.Violation{Oracle: "population", Where: fmt.Sprintf("type %s in the binaries of %s and %s", strings.TrimPrefix(k, "n:"), v.Name, vb.Name), Sig: "population|sweep",
				Detail: "first line: binary of " + v.Name + ", second: binary of " + vb.Name + "\n" + d})
			if len(oc.Viols) > 6 {
				return
			}
		}
	}
}

func first(s []string) string {
	if len(s) > 0 {
		return s[0]
	}
	return ""
}

// ---------------------------------------------------------------- race logs

type raceReport struct {
	Text    string
	LibSide bool
	Key     string
	Where   string
}

var frameRe = regexp.MustCompile(`^\s+([^\s(]+)\(`)

func parseRaceLog(lg string) []raceReport {
	var out []raceReport
	blocks := strings.Split(lg, "==================")
	for _, b := range blocks {
		if !strings.Contains(b, "WARNING: DATA RACE") {
			continue
		}
		// split into stacks: sections start with a non-indented line ending with ':'
		var stacks [][]string
		var cur []string
		for _, line := range strings.Split(b, "\n") {
			if strings.HasPrefix(line, "WARNING: DATA RACE") {
				continue // the first access follows this line without a blank line
			}
			if line == "" {
				if cur != nil {
					stacks = append(stacks, cur)
					cur = nil
				}
				continue
			}
			cur = append(cur, line)
		}
		if cur != nil {
			stacks = append(stacks, cur)
		}
		var tops []string
		lib := false
		allHarness := true
		for _, st := range stacks {
			head := st[0]
			if !(strings.Contains(head, " at 0x") && strings.Contains(head, "by ")) {
				continue // goroutine creation stacks etc.
			}
			top := ""
			harness := false
			for _, l := range st[1:] {
				m := frameRe.FindStringSubmatch(l)
				if m == nil {
					continue
				}
				fn := m[1]
				isHarness := strings.HasPrefix(fn, "vsim/") || strings.HasPrefix(fn, "main.") || strings.Contains(fn, "/verifsim.")
				// import path = everything up to the last '/' plus the package name;
				// a standard library package has no dot in its first path element
				firstElem := fn
				if i := strings.Index(firstElem, "/"); i >= 0 {
					firstElem = firstElem[:i]
				} else if i := strings.Index(firstElem, "."); i >= 0 {
					firstElem = firstElem[:i]
				}
				if !isHarness && !strings.Contains(firstElem, ".") {
					// a standard library frame (runtime, strconv, bytes, reflect, …):
					// whose access it is is decided by the first frame outside of it
					continue
				}
				// the innermost frame outside the standard library decides whose access it is
				top = fn
				if isHarness {
					harness = true
				}
				break
			}
			tops = append(tops, top)
			if !harness {
				// a library frame, or a stack the detector could not restore
				allHarness = false
			}
			if !harness && strings.Contains(top, "github.com/goccy/go-json") {
				lib = true
			}
		}
		if len(tops) == 0 || !allHarness {
			// only a report whose every access is provably harness code is a
			// harness problem; anything else is charged to the library
			lib = true
		}
		sort.Strings(tops)
		key := strings.Join(tops, "|")
		out = append(out, raceReport{Text: addrRe.ReplaceAllString(headLines(strings.TrimSpace(b), 40), "0xADDR"), LibSide: lib, Key: key, Where: key})
	}
	return out
}
