package main

import (
	"crypto/sha256"
	"encoding/hex"
	"fmt"
	"io"
	"os"
	"os/exec"
	"path/filepath"
	"strings"
	"time"

	"vsim/instrument"
)

// A variant is one way of building the worker against /repo's working tree.
//
//	plain      unmodified tree (+ the verifsim package as an extra directory)
//	pie        the same, -buildmode=pie
//	inst       yields inserted, sync types replaced (scratch copy only)
//	inst-race  the same with -race (selects go-json's race-build cache code)
//	plain-bN   plain with other buffer sizes (tuning knobs)
//	plain-pop  plain with a second population of types in the worker (C14)
//	plain-cp   plain built with -gcflags=all=-d=checkptr
type variant struct {
	Name string
	Bin  string
	Hash string
	Dir  string
}

type builder struct {
	repo    string
	simDir  string
	scratch string
	built   map[string]*variant
	log     io.Writer
}

func newBuilder(repo, simDir string) (*builder, error) {
	base := os.Getenv("VERIF_SCRATCH")
	if base == "" {
		base = os.TempDir()
	}
	dir, err := os.MkdirTemp(base, "verif-scratch-")
	if err != nil {
		return nil, err
	}
	return &builder{repo: repo, simDir: simDir, scratch: dir, built: map[string]*variant{}, log: os.Stderr}, nil
}

func (b *builder) cleanup() {
	if os.Getenv("VERIF_KEEP") == "" {
		os.RemoveAll(b.scratch)
	}
}

func goEnv() []string {
	env := os.Environ()
	env = append(env, "GOFLAGS=-mod=mod", "GOPROXY=off", "GOSUMDB=off", "GOTOOLCHAIN=local", "CGO_ENABLED=1")
	return env
}

func copyTree(src, dst string) error {
	return filepath.Walk(src, func(p string, info os.FileInfo, err error) error {
		if err != nil {
			return err
		}
		rel, _ := filepath.Rel(src, p)
		if rel == "." {
			return os.MkdirAll(dst, 0o755)
		}
		top := strings.Split(rel, string(filepath.Separator))[0]
		if top == ".git" || top == "benchmarks" || top == "test" || top == "docs" {
			if info.IsDir() {
				return filepath.SkipDir
			}
			return nil
		}
		if info.IsDir() {
			return os.MkdirAll(filepath.Join(dst, rel), 0o755)
		}
		if strings.HasSuffix(rel, "_test.go") {
			return nil
		}
		if !strings.HasSuffix(rel, ".go") && !strings.HasSuffix(rel, ".s") && rel != "go.mod" && rel != "go.sum" {
			return nil
		}
		data, err := os.ReadFile(p)
		if err != nil {
			return err
		}
		return os.WriteFile(filepath.Join(dst, rel), data, 0o644)
	})
}

func (b *builder) build(name string) (*variant, error) {
	if v, ok := b.built[name]; ok {
		return v, nil
	}
	t0 := time.Now()
	inst := strings.HasPrefix(name, "inst")
	srcKind := "plain"
	if inst {
		srcKind = "inst"
	}
	// tuning-knob variants ("plain-b16", "plain-b96"): the same tree with other
	// buffer sizes, so that correctness never silently depends on one
	// configuration (a refill boundary every 16 / 96 bytes instead of 512)
	knob := 0
	if i := strings.Index(name, "-b"); i >= 0 && !strings.HasSuffix(name, "-pop") {
		fmt.Sscanf(name[i+2:], "%d", &knob)
		srcKind = fmt.Sprintf("plain-b%d", knob)
	}
	dir := filepath.Join(b.scratch, "src-"+srcKind)
	gj := filepath.Join(dir, "gojson")
	if _, err := os.Stat(gj); err != nil {
		if err := copyTree(b.repo, gj); err != nil {
			return nil, fmt.Errorf("copy repo: %w", err)
		}
		vs := filepath.Join(gj, "verifsim")
		os.MkdirAll(vs, 0o755)
		ents, err := os.ReadDir(filepath.Join(b.simDir, "verifsim_src"))
		if err != nil {
			return nil, err
		}
		for _, e := range ents {
			data, err := os.ReadFile(filepath.Join(b.simDir, "verifsim_src", e.Name()))
			if err != nil {
				return nil, err
			}
			os.WriteFile(filepath.Join(vs, e.Name()), data, 0o644)
		}
		if knob > 0 {
			n := 0
			n += replaceInFile(filepath.Join(gj, "internal", "decoder", "stream.go"), "initBufSize = 512", fmt.Sprintf("initBufSize = %d", knob))
			n += replaceInFile(filepath.Join(gj, "internal", "encoder", "context.go"), "bufSize = 1024", fmt.Sprintf("bufSize = %d", knob))
			fmt.Fprintf(b.log, "[build] knob variant %s: %d of 2 buffer-size constants rewritten in the scratch copy\n", name, n)
		}
		if inst {
			rep, err := instrument.Rewrite(gj, "github.com/goccy/go-json")
			if err != nil {
				return nil, fmt.Errorf("instrument: %w", err)
			}
			fmt.Fprintf(b.log, "[build] instrumented: %d files, %d yields (A=%d B=%d C=%d), %d sync types replaced, %d cache entry points wrapped, %d map-ranging loops made quiet\n",
				rep.Files, rep.Yields, rep.ClassA, rep.ClassB, rep.ClassC, rep.SyncTypes, rep.Wrapped, rep.MapLoops)
			os.WriteFile(filepath.Join(dir, "sites.json"), rep.SitesJSON, 0o644)
		}
		mod := fmt.Sprintf("module vsim\n\ngo 1.23\n\nrequire github.com/goccy/go-json v0.0.0\n\nreplace github.com/goccy/go-json => %s\n", gj)
		os.WriteFile(filepath.Join(dir, "go.mod"), []byte(mod), 0o644)
		os.WriteFile(filepath.Join(dir, "go.sum"), nil, 0o644)
	}
	bin := filepath.Join(b.scratch, "worker-"+name)
	args := []string{"build", "-trimpath", "-modfile=" + filepath.Join(dir, "go.mod"), "-o", bin}
	tags := "verif"
	if inst {
		tags += ",verifinst"
	}
	if strings.HasSuffix(name, "-pop") {
		// another population of types in the worker binary (C14): see gen_pop.py
		tags += ",verifpop"
	}
	args = append(args, "-tags", tags)
	if strings.Contains(name, "race") {
		args = append(args, "-race")
	}
	if strings.HasSuffix(name, "-cover") {
		// reach probes: Go's own coverage instrumentation of the library
		args = append(args, "-cover", "-coverpkg=all")
	}
	if strings.Contains(name, "pie") {
		args = append(args, "-buildmode=pie")
	}
	if strings.HasSuffix(name, "-cp") {
		// checkptr: the compiler's instrumentation of unsafe.Pointer conversions
		// (what -race switches on as well): pointer arithmetic that leaves the
		// allocation it started in is a fatal error
		args = append(args, "-gcflags=all=-d=checkptr")
	}
	args = append(args, "./cmd/worker")
	cmd := exec.Command("go", args...)
	cmd.Dir = b.simDir
	cmd.Env = goEnv()
	out, err := cmd.CombinedOutput()
	if err != nil {
		return nil, fmt.Errorf("go %s: %v\n%s", strings.Join(args, " "), err, out)
	}
	data, err := os.ReadFile(bin)
	if err != nil {
		return nil, err
	}
	h := sha256.Sum256(data)
	v := &variant{Name: name, Bin: bin, Hash: hex.EncodeToString(h[:8]), Dir: dir}
	b.built[name] = v
	fmt.Fprintf(b.log, "[build] variant %s built in %.1fs (%s)\n", name, time.Since(t0).Seconds(), v.Hash)
	return v, nil
}

func replaceInFile(path, old, new string) int {
	data, err := os.ReadFile(path)
	if err != nil || !strings.Contains(string(data), old) {
		return 0
	}
	os.WriteFile(path, []byte(strings.Replace(string(data), old, new, 1)), 0o644)
	return 1
}
