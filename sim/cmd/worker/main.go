package main

import "vsim/worker"

func main() { worker.Main() }
