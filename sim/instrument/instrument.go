// Package instrument rewrites a scratch copy of go-json (never /repo itself).
//
//	R1  sync.Pool / Mutex / RWMutex / Once  ->  verifsim.Pool / Mutex / RWMutex / Once
//	R2  verifsim.Yield(site) before statements that touch synchronisation
//	    objects, atomics or mutable package-level variables (class A), before
//	    stores through selectors / index expressions outside the VM packages
//	    (class B), and at function entry in internal/encoder and
//	    internal/decoder (class C)
//	R3  CompileToGetCodeSet / CompileToGetDecoder are renamed and wrapped; the
//	    wrapper reports (requested type, program, program's own type) to the
//	    identity tables of verifsim (C14, oracle O4)
//
// The rules are purely syntactic so that they re-apply to any edited tree.
package instrument

import (
	"encoding/json"
	"fmt"
	"go/ast"
	"go/parser"
	"go/token"
	"os"
	"path/filepath"
	"sort"
	"strconv"
	"strings"
)

type Report struct {
	Files, Yields, ClassA, ClassB, ClassC, SyncTypes, Wrapped, MapLoops int
	SitesJSON                                                 []byte
}

type site struct {
	ID    uint32 `json:"id"`
	Class int    `json:"class"`
	Pos   string `json:"pos"`
	Why   string `json:"why"`
}

type rewriter struct {
	modPath string
	root    string
	rep     *Report
	sites   []site
	nextIdx uint32
}

var syncTypes = map[string]bool{"Pool": true, "Mutex": true, "RWMutex": true, "Once": true}
var lockMethods = map[string]bool{"Lock": true, "Unlock": true, "RLock": true, "RUnlock": true, "Do": true, "Get": true, "Put": true}

func Rewrite(dir, modPath string) (*Report, error) {
	rw := &rewriter{modPath: modPath, root: dir, rep: &Report{}, nextIdx: 1}
	// group files by directory (= package)
	pkgs := map[string][]string{}
	err := filepath.Walk(dir, func(p string, info os.FileInfo, err error) error {
		if err != nil {
			return err
		}
		if info.IsDir() {
			base := filepath.Base(p)
			if base == "verifsim" || base == "generator" || base == "testdata" {
				return filepath.SkipDir
			}
			return nil
		}
		if strings.HasSuffix(p, ".go") && !strings.HasSuffix(p, "_test.go") {
			d := filepath.Dir(p)
			pkgs[d] = append(pkgs[d], p)
		}
		return nil
	})
	if err != nil {
		return nil, err
	}
	var dirs []string
	for d := range pkgs {
		dirs = append(dirs, d)
	}
	sort.Strings(dirs)
	for _, d := range dirs {
		rel, _ := filepath.Rel(dir, d)
		if rel == filepath.Join("internal", "runtime") || rel == filepath.Join("internal", "errors") {
			continue // linkname-heavy / trivial: left untouched
		}
		sort.Strings(pkgs[d])
		if err := rw.rewritePackage(d, rel, pkgs[d]); err != nil {
			return nil, err
		}
	}
	rw.rep.SitesJSON, _ = json.MarshalIndent(rw.sites, "", " ")
	return rw.rep, nil
}

func (rw *rewriter) rewritePackage(dir, rel string, files []string) error {
	fset := token.NewFileSet()
	var parsed []*ast.File
	for _, f := range files {
		af, err := parser.ParseFile(fset, f, nil, parser.ParseComments)
		if err != nil {
			return fmt.Errorf("parse %s: %w", f, err)
		}
		parsed = append(parsed, af)
	}
	isVM := strings.Contains(rel, filepath.Join("encoder", "vm"))
	classC := rel == filepath.Join("internal", "encoder") || rel == filepath.Join("internal", "decoder")

	// package-level variables and which of them are mutable
	pkgVars := map[string]bool{}
	for _, af := range parsed {
		for _, d := range af.Decls {
			gd, ok := d.(*ast.GenDecl)
			if !ok || gd.Tok != token.VAR {
				continue
			}
			for _, sp := range gd.Specs {
				vs := sp.(*ast.ValueSpec)
				for _, n := range vs.Names {
					if n.Name != "_" {
						pkgVars[n.Name] = true
					}
				}
			}
		}
	}
	// names that denote Go maps (syntactic): fields, parameters, results and
	// variables declared with a map type or initialised with make(map…) / a map
	// literal; used to find the loops that range over a map
	mapNames := map[string]bool{}
	isMapType := func(e ast.Expr) bool {
		_, ok := e.(*ast.MapType)
		return ok
	}
	isMapValue := func(e ast.Expr) bool {
		switch x := e.(type) {
		case *ast.CompositeLit:
			return x.Type != nil && isMapType(x.Type)
		case *ast.CallExpr:
			if id, ok := x.Fun.(*ast.Ident); ok && id.Name == "make" && len(x.Args) > 0 {
				return isMapType(x.Args[0])
			}
		}
		return false
	}
	for _, af := range parsed {
		ast.Inspect(af, func(n ast.Node) bool {
			switch x := n.(type) {
			case *ast.Field:
				if isMapType(x.Type) {
					for _, nm := range x.Names {
						mapNames[nm.Name] = true
					}
				}
			case *ast.ValueSpec:
				if x.Type != nil && isMapType(x.Type) {
					for _, nm := range x.Names {
						mapNames[nm.Name] = true
					}
				}
				for i, v := range x.Values {
					if isMapValue(v) && i < len(x.Names) {
						mapNames[x.Names[i].Name] = true
					}
				}
			case *ast.AssignStmt:
				for i, v := range x.Rhs {
					if isMapValue(v) && i < len(x.Lhs) {
						if id, ok := x.Lhs[i].(*ast.Ident); ok {
							mapNames[id.Name] = true
						}
					}
				}
			case *ast.FuncDecl:
				// functions whose single result is a map
				if x.Type.Results != nil && len(x.Type.Results.List) == 1 && isMapType(x.Type.Results.List[0].Type) {
					mapNames[x.Name.Name+"()"] = true
				}
			}
			return true
		})
	}
	mutable := map[string]bool{}
	markRoot := func(e ast.Expr) {
		for {
			switch x := e.(type) {
			case *ast.Ident:
				if pkgVars[x.Name] {
					mutable[x.Name] = true
				}
				return
			case *ast.SelectorExpr:
				e = x.X
			case *ast.IndexExpr:
				e = x.X
			case *ast.StarExpr:
				e = x.X
			case *ast.ParenExpr:
				e = x.X
			default:
				return
			}
		}
	}
	for _, af := range parsed {
		for _, d := range af.Decls {
			// sync-typed package variables are mutable by nature
			if gd, ok := d.(*ast.GenDecl); ok && gd.Tok == token.VAR {
				for _, sp := range gd.Specs {
					vs := sp.(*ast.ValueSpec)
					isSync := false
					check := func(e ast.Expr) {
						ast.Inspect(e, func(n ast.Node) bool {
							if se, ok := n.(*ast.SelectorExpr); ok {
								if id, ok := se.X.(*ast.Ident); ok && id.Name == "sync" && syncTypes[se.Sel.Name] {
									isSync = true
								}
							}
							return true
						})
					}
					if vs.Type != nil {
						check(vs.Type)
					}
					for _, v := range vs.Values {
						check(v)
					}
					if isSync {
						for _, n := range vs.Names {
							mutable[n.Name] = true
						}
					}
				}
			}
			fd, ok := d.(*ast.FuncDecl)
			if !ok || fd.Body == nil || fd.Name.Name == "init" {
				continue
			}
			ast.Inspect(fd.Body, func(n ast.Node) bool {
				switch x := n.(type) {
				case *ast.AssignStmt:
					if x.Tok != token.DEFINE {
						for _, l := range x.Lhs {
							markRoot(l)
						}
					}
				case *ast.IncDecStmt:
					markRoot(x.X)
				case *ast.UnaryExpr:
					if x.Op == token.AND {
						markRoot(x.X)
					}
				}
				return true
			})
		}
	}

	for i, af := range parsed {
		path := files[i]
		relFile, _ := filepath.Rel(rw.root, path)
		src, err := os.ReadFile(path)
		if err != nil {
			return err
		}
		var edits []edit
		usesVerifsim := false
		off := func(p token.Pos) int { return fset.Position(p).Offset }

		// R1: sync.X -> verifsim.X (textual, positions of comments are untouched)
		syncLeft := false
		ast.Inspect(af, func(n ast.Node) bool {
			se, ok := n.(*ast.SelectorExpr)
			if !ok {
				return true
			}
			if id, ok := se.X.(*ast.Ident); ok && id.Name == "sync" {
				if syncTypes[se.Sel.Name] {
					edits = append(edits, edit{off(id.Pos()), len("sync"), "verifsim"})
					rw.rep.SyncTypes++
					usesVerifsim = true
				} else {
					syncLeft = true
				}
			}
			return true
		})

		// R3: rename the cache entry points
		for _, d := range af.Decls {
			fd, ok := d.(*ast.FuncDecl)
			if !ok || fd.Recv != nil {
				continue
			}
			if fd.Name.Name == "CompileToGetCodeSet" || fd.Name.Name == "CompileToGetDecoder" {
				edits = append(edits, edit{off(fd.Name.Pos()), 0, "verifOrig"})
			}
		}

		// R2
		for _, d := range af.Decls {
			fd, ok := d.(*ast.FuncDecl)
			if !ok || fd.Body == nil || fd.Name.Name == "init" {
				continue
			}
			if hasDirective(fd.Doc) {
				continue
			}
			ins := &inserter{rw: rw, fset: fset, file: relFile, mutable: mutable, isVM: isVM, mapNames: mapNames}
			ins.block(fd.Body)
			if ins.mapLoops > 0 {
				ins.edits = append(ins.edits, edit{off(fd.Body.Lbrace) + 1, 0, " defer verifsim.QuietRestore(verifsim.QuietLevel());"})
				rw.rep.MapLoops += ins.mapLoops
			}
			if classC && !isVM && len(fd.Body.List) > 0 {
				id := rw.newSite(3, fset.Position(fd.Pos()), relFile, "func "+fd.Name.Name)
				ins.edits = append(ins.edits, edit{off(fd.Body.Lbrace) + 1, 0, " " + yieldText(id) + ";"})
				rw.rep.ClassC++
			}
			if len(ins.edits) > 0 {
				edits = append(edits, ins.edits...)
				usesVerifsim = true
			}
		}
		if len(edits) == 0 {
			continue
		}
		if usesVerifsim {
			// a separate import declaration right after the package clause
			edits = append(edits, edit{off(af.Name.End()), 0, "\n\nimport verifsim \"" + rw.modPath + "/verifsim\"\n"})
		}
		hasSyncImport := false
		for _, im := range af.Imports {
			if im.Path.Value == `"sync"` && im.Name == nil {
				hasSyncImport = true
			}
		}
		out := applyEdits(src, edits)
		if hasSyncImport && !syncLeft {
			out = append(out, []byte("\nvar _ sync.Locker // keeps the import used after the type swap\n")...)
		}
		if _, err := parser.ParseFile(token.NewFileSet(), path, out, 0); err != nil {
			return fmt.Errorf("rewritten %s does not parse: %w", path, err)
		}
		if err := os.WriteFile(path, out, 0o644); err != nil {
			return err
		}
		rw.rep.Files++
	}

	// R3 wrappers
	switch rel {
	case filepath.Join("internal", "encoder"):
		src := `package encoder

import (
	"unsafe"

	"` + rw.modPath + `/verifsim"
)

// CompileToGetCodeSet wraps the original entry point (both build variants)
// with the identity assertion of C14.
func CompileToGetCodeSet(ctx *RuntimeContext, typeptr uintptr) (*OpcodeSet, error) {
	set, err := verifOrigCompileToGetCodeSet(ctx, typeptr)
	if err == nil && set != nil {
		verifsim.CheckProgram("enc", typeptr, uintptr(unsafe.Pointer(set)), uintptr(unsafe.Pointer(set.Type)))
	}
	return set, err
}
`
		if err := os.WriteFile(filepath.Join(dir, "verif_wrap.go"), []byte(src), 0o644); err != nil {
			return err
		}
		rw.rep.Wrapped++
	case filepath.Join("internal", "decoder"):
		src := `package decoder

import (
	"unsafe"

	"` + rw.modPath + `/internal/runtime"
	"` + rw.modPath + `/verifsim"
)

// CompileToGetDecoder wraps the original entry point (both build variants)
// with the identity assertion of C14.
func CompileToGetDecoder(typ *runtime.Type) (Decoder, error) {
	dec, err := verifOrigCompileToGetDecoder(typ)
	if err == nil && dec != nil {
		verifsim.CheckProgram("dec", uintptr(unsafe.Pointer(typ)), (*[2]uintptr)(unsafe.Pointer(&dec))[1], 0)
	}
	return dec, err
}
`
		if err := os.WriteFile(filepath.Join(dir, "verif_wrap.go"), []byte(src), 0o644); err != nil {
			return err
		}
		rw.rep.Wrapped++
	}
	return nil
}

func hasDirective(doc *ast.CommentGroup) bool {
	if doc == nil {
		return false
	}
	for _, c := range doc.List {
		if strings.HasPrefix(c.Text, "//go:") {
			return true
		}
	}
	return false
}

func (rw *rewriter) newSite(class int, pos token.Position, file, why string) uint32 {
	idx := rw.nextIdx
	rw.nextIdx++
	if rw.nextIdx >= 0xFFFF {
		rw.nextIdx = 1 // wrap: ids are only used for counting and replay
	}
	id := uint32(class)<<24 | idx
	rw.sites = append(rw.sites, site{ID: id, Class: class, Pos: fmt.Sprintf("%s:%d", file, pos.Line), Why: why})
	rw.rep.Yields++
	return id
}

type edit struct {
	off int
	del int
	ins string
}

func applyEdits(src []byte, edits []edit) []byte {
	sort.SliceStable(edits, func(i, j int) bool { return edits[i].off < edits[j].off })
	var out []byte
	pos := 0
	for _, e := range edits {
		if e.off < pos {
			continue // overlapping (cannot happen for our edits)
		}
		out = append(out, src[pos:e.off]...)
		out = append(out, e.ins...)
		pos = e.off + e.del
	}
	return append(out, src[pos:]...)
}

func yieldText(id uint32) string {
	return "verifsim.Yield(0x" + strconv.FormatUint(uint64(id), 16) + ")"
}

type inserter struct {
	rw      *rewriter
	fset    *token.FileSet
	file    string
	mutable map[string]bool
	isVM    bool
	edits   []edit
	mapNames map[string]bool
	mapLoops int
	quiet    int // >0 while descending into the body of a map-ranging loop
}

// rangesOverMap: the range expression is a name known to denote a map, a
// selector ending in such a name, or a call of a function returning a map.
func (ins *inserter) rangesOverMap(x ast.Expr) bool {
	switch e := x.(type) {
	case *ast.Ident:
		return ins.mapNames[e.Name]
	case *ast.SelectorExpr:
		return ins.mapNames[e.Sel.Name]
	case *ast.CallExpr:
		switch f := e.Fun.(type) {
		case *ast.Ident:
			return ins.mapNames[f.Name+"()"]
		case *ast.SelectorExpr:
			return ins.mapNames[f.Sel.Name+"()"]
		}
	case *ast.ParenExpr:
		return ins.rangesOverMap(e.X)
	}
	return false
}

// classify looks at the statement's own expressions (not at nested blocks,
// whose statements get their own yields).
func (ins *inserter) classify(st ast.Stmt) (int, string) {
	class, why := 0, ""
	var exprs []ast.Node
	switch s := st.(type) {
	case *ast.ExprStmt:
		exprs = append(exprs, s.X)
	case *ast.AssignStmt:
		for _, e := range s.Lhs {
			exprs = append(exprs, e)
		}
		for _, e := range s.Rhs {
			exprs = append(exprs, e)
		}
		if !ins.isVM && s.Tok != token.DEFINE {
			for _, l := range s.Lhs {
				switch l.(type) {
				case *ast.SelectorExpr, *ast.IndexExpr, *ast.StarExpr:
					class, why = 2, "store"
				}
			}
		}
	case *ast.IncDecStmt:
		exprs = append(exprs, s.X)
	case *ast.ReturnStmt:
		for _, e := range s.Results {
			exprs = append(exprs, e)
		}
	case *ast.IfStmt:
		if s.Init != nil {
			exprs = append(exprs, s.Init)
		}
		exprs = append(exprs, s.Cond)
	case *ast.SwitchStmt:
		if s.Init != nil {
			exprs = append(exprs, s.Init)
		}
		if s.Tag != nil {
			exprs = append(exprs, s.Tag)
		}
	case *ast.ForStmt:
		if s.Init != nil {
			exprs = append(exprs, s.Init)
		}
		if s.Cond != nil {
			exprs = append(exprs, s.Cond)
		}
	case *ast.RangeStmt:
		exprs = append(exprs, s.X)
	case *ast.DeferStmt:
		exprs = append(exprs, s.Call)
	case *ast.DeclStmt:
		exprs = append(exprs, s.Decl)
	default:
		return 0, ""
	}
	for _, e := range exprs {
		ast.Inspect(e, func(n ast.Node) bool {
			switch x := n.(type) {
			case *ast.FuncLit:
				return false
			case *ast.CallExpr:
				if se, ok := x.Fun.(*ast.SelectorExpr); ok {
					if id, ok := se.X.(*ast.Ident); ok && id.Name == "atomic" {
						class, why = 1, "atomic."+se.Sel.Name
					} else if lockMethods[se.Sel.Name] {
						class, why = 1, "."+se.Sel.Name
					}
				}
			case *ast.Ident:
				if ins.mutable[x.Name] && x.Obj == nil || (ins.mutable[x.Name] && x.Obj != nil && x.Obj.Kind == ast.Var && isPackageLevel(x.Obj)) {
					class, why = 1, "var "+x.Name
				}
			}
			return true
		})
	}
	return class, why
}

func isPackageLevel(o *ast.Object) bool {
	// package-level variables are declared by a *ast.ValueSpec in a GenDecl;
	// without type information the cheap test is: not declared by := / params
	_, ok := o.Decl.(*ast.ValueSpec)
	return ok
}

func (ins *inserter) list(stmts []ast.Stmt) []ast.Stmt {
	for _, st := range stmts {
		inner := st
		if ls, ok := st.(*ast.LabeledStmt); ok {
			inner = ls.Stmt
		}
		if rs, ok := inner.(*ast.RangeStmt); ok && ins.rangesOverMap(rs.X) {
			// a loop over a map: no scheduling points inside (see verifsim.QuietOn)
			ins.mapLoops++
			ins.edits = append(ins.edits, edit{ins.fset.Position(st.Pos()).Offset, 0, "verifsim.QuietOn(); "})
			ins.edits = append(ins.edits, edit{ins.fset.Position(rs.End()).Offset, 0, "; verifsim.QuietOff()"})
			continue
		}
		if class, why := ins.classify(inner); class != 0 {
			id := ins.rw.newSite(class, ins.fset.Position(st.Pos()), ins.file, why)
			ins.edits = append(ins.edits, edit{ins.fset.Position(st.Pos()).Offset, 0, yieldText(id) + "; "})
			if class == 1 {
				ins.rw.rep.ClassA++
			} else {
				ins.rw.rep.ClassB++
			}
		}
		ins.descend(inner)
	}
	return stmts
}

func (ins *inserter) block(b *ast.BlockStmt) {
	if b == nil {
		return
	}
	b.List = ins.list(b.List)
}

func (ins *inserter) descend(st ast.Stmt) {
	switch s := st.(type) {
	case *ast.BlockStmt:
		ins.block(s)
	case *ast.IfStmt:
		ins.block(s.Body)
		if s.Else != nil {
			ins.descend(s.Else)
		}
	case *ast.ForStmt:
		ins.block(s.Body)
	case *ast.RangeStmt:
		ins.block(s.Body)
	case *ast.SwitchStmt:
		for _, c := range s.Body.List {
			cc := c.(*ast.CaseClause)
			cc.Body = ins.list(cc.Body)
		}
	case *ast.TypeSwitchStmt:
		for _, c := range s.Body.List {
			cc := c.(*ast.CaseClause)
			cc.Body = ins.list(cc.Body)
		}
	case *ast.SelectStmt:
		for _, c := range s.Body.List {
			cc := c.(*ast.CommClause)
			cc.Body = ins.list(cc.Body)
		}
	case *ast.LabeledStmt:
		ins.descend(s.Stmt)
	}
}

