// Package instrument rewrites a scratch copy of go-json (never /repo itself):
// R1 sync types -> verifsim types, R2 yields, R3 cache entry point wrappers.
package instrument

type Report struct {
	Files, Yields, ClassA, ClassB, ClassC, SyncTypes, Wrapped int
	SitesJSON                                                 []byte
}

func Rewrite(dir, modPath string) (*Report, error) {
	return &Report{}, nil
}
