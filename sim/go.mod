module vsim

go 1.23

require github.com/goccy/go-json v0.0.0

replace github.com/goccy/go-json => /repo
