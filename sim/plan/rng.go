package plan

// Rng is xoshiro256** seeded through splitmix64. Implemented here so that the
// stream of decisions cannot change with the Go release.
type Rng struct{ s [4]uint64 }

func splitmix(x *uint64) uint64 {
	*x += 0x9E3779B97F4A7C15
	z := *x
	z = (z ^ (z >> 30)) * 0xBF58476D1CE4E5B9
	z = (z ^ (z >> 27)) * 0x94D049BB133111EB
	return z ^ (z >> 31)
}

func NewRng(seed uint64) *Rng {
	r := &Rng{}
	x := seed
	for i := range r.s {
		r.s[i] = splitmix(&x)
	}
	return r
}

// Derive gives an independent generator for a sub-purpose.
func Derive(seed uint64, keys ...uint64) *Rng {
	x := seed
	for _, k := range keys {
		x = splitmix(&x) ^ (k * 0xD6E8FEB86659FD93)
	}
	return NewRng(x)
}

func rotl(x uint64, k uint) uint64 { return (x << k) | (x >> (64 - k)) }

func (r *Rng) U64() uint64 {
	s := &r.s
	res := rotl(s[1]*5, 7) * 9
	t := s[1] << 17
	s[2] ^= s[0]
	s[3] ^= s[1]
	s[1] ^= s[2]
	s[0] ^= s[3]
	s[2] ^= t
	s[3] = rotl(s[3], 45)
	return res
}

func (r *Rng) Intn(n int) int {
	if n <= 0 {
		return 0
	}
	return int(r.U64() % uint64(n))
}

func (r *Rng) Bool() bool { return r.U64()&1 == 1 }

// Chance returns true with probability num/den.
func (r *Rng) Chance(num, den int) bool { return r.Intn(den) < num }

func (r *Rng) Range(lo, hi int) int { // inclusive
	if hi <= lo {
		return lo
	}
	return lo + r.Intn(hi-lo+1)
}

func (r *Rng) Pick(ss []string) string { return ss[r.Intn(len(ss))] }

func (r *Rng) Perm(n int) []int {
	p := make([]int, n)
	for i := range p {
		p[i] = i
	}
	for i := n - 1; i > 0; i-- {
		j := r.Intn(i + 1)
		p[i], p[j] = p[j], p[i]
	}
	return p
}
