// Package plan defines the replay-file schema: a plan is everything a worker
// needs to perform one simulated run; execution is a pure function of
// (plan, code under test).
package plan

import (
	"crypto/sha256"
	"encoding/hex"
	"encoding/json"
)

type Plan struct {
	Prop  string `json:"prop"`
	Seed  int64  `json:"seed"`
	Index int    `json:"index"`
	Mode  string `json:"mode"` // "stream" | "sessions" | "typesweep"
	Note  string `json:"note,omitempty"`

	Config Config `json:"config"`

	// mode "sessions"
	Sessions []Session `json:"sessions,omitempty"`
	// Order interleaves session steps on one goroutine: each entry names a
	// session index whose next step runs; entries < 0 are events:
	// -1 one GC cycle, -2 two GC cycles. Sessions with steps left after
	// Order is exhausted run to completion in index order.
	Order []int `json:"order,omitempty"`
	// Tasks: run every session as its own task under the scheduler.
	Tasks bool  `json:"tasks,omitempty"`
	Sched Sched `json:"sched,omitempty"`

	// mode "stream"
	Stream []StreamFamily `json:"stream,omitempty"`

	// mode "typesweep"
	Sweep *Sweep `json:"sweep,omitempty"`
}

type Config struct {
	PoolPolicy string   `json:"pool_policy,omitempty"` // "", lifo, fifo, miss, random (instrumented builds only)
	PoolSeed   uint64   `json:"pool_seed,omitempty"`
	Faults     []string `json:"faults,omitempty"` // enabled fault kinds (informational; the scripts are explicit)
	Variant    string   `json:"variant,omitempty"`
	// SmallMaps: catalogue values get maps with at most one entry. Set for
	// scheduled (task) plans: go-json encodes map entries in Go's randomised
	// iteration order before sorting them, so with larger maps the sequence of
	// yield points (and with it the schedule) would differ from run to run.
	SmallMaps bool `json:"small_maps,omitempty"`
}

type Sched struct {
	Seed      uint64    `json:"seed,omitempty"`
	Prob      [4]uint32 `json:"prob,omitempty"`
	Points    []Point   `json:"points,omitempty"`
	MaxYields uint64    `json:"max_yields,omitempty"`
}

type Point struct {
	At   uint64 `json:"at,omitempty"`
	Site uint32 `json:"site,omitempty"`
	Occ  uint32 `json:"occ,omitempty"`
	Task int    `json:"task"`
	To   int    `json:"to"`
}

type Session struct {
	ID string `json:"id"`
	// Shared names a handle (FieldQuery or Path) that this session shares
	// with other sessions of the plan. In a cold (isolated) run the session
	// builds a private handle from the same constructor text.
	Steps []Step `json:"steps"`
}

// Step is one public API call with concrete arguments. All arguments are
// values (catalogue names, seeds, byte strings), never process state.
type Step struct {
	Op   string   `json:"op"`
	T    string   `json:"t,omitempty"`    // catalogue type name
	V    int64    `json:"v,omitempty"`    // value seed for the catalogue constructor
	Doc  []byte   `json:"doc,omitempty"`  // document / text argument
	Bomb *Bomb    `json:"bomb,omitempty"` // a nesting bomb instead of Doc (expanded by the worker)
	Opts []string `json:"opts,omitempty"` // option names
	S1   string   `json:"s1,omitempty"`   // prefix / path text / query text
	S2   string   `json:"s2,omitempty"`   // indent
	H    string   `json:"h,omitempty"`    // handle name within the session (encoder, decoder, path, query)
	// Shared: the handle H lives in the plan-wide table (shared between
	// sessions) instead of the session's private table.
	Shared bool      `json:"shared,omitempty"`
	Reader *Reader   `json:"reader,omitempty"`
	Writer *Writer   `json:"writer,omitempty"`
	Probe  string    `json:"probe,omitempty"` // C12 probes: "mutate_input", "mutate_output", "keep"
	N      int       `json:"n,omitempty"`
	Del    []Deliver `json:"del,omitempty"`
}

// Bomb describes a deeply nested document: kind 0 "[" x d, 1 {"a": x d, 2 "[" x d "]" x d, 3 {"a": x d 1 "}" x d.
type Bomb struct {
	Kind  int `json:"kind"`
	Depth int `json:"depth"`
}

// Reader is the script of a simulated io.Reader.
type Reader struct {
	Data []byte    `json:"data"`
	Bomb *Bomb     `json:"bomb,omitempty"`
	Del  []Deliver `json:"del,omitempty"` // deliveries; when exhausted: rest of data in one piece, then (0, io.EOF)
}

// Deliver is one answer of the simulated reader to one Read call.
type Deliver struct {
	N        int    `json:"n"`                  // bytes handed over (capped by len(p) and by what is left)
	Err      string `json:"err,omitempty"`      // "" | "eof" | "transient" | "permanent"
	Scribble bool   `json:"scribble,omitempty"` // scribble on p[n:] before returning
	Reenter  bool   `json:"reenter,omitempty"`  // the reader calls the library itself (nested use of the pools)
}

type Writer struct {
	FailAt int    `json:"fail_at,omitempty"` // 1-based index of the Write call that fails; 0 = never
	Short  bool   `json:"short,omitempty"`   // failing write reports half of the bytes as written
	Reenter bool  `json:"reenter,omitempty"` // every Write calls the library itself before returning
	Mode   string `json:"mode,omitempty"`
}

// StreamFamily is a compact description of many (document, type, delivery)
// cases; the worker enumerates the deliveries.
type StreamFamily struct {
	Parts [][]byte `json:"parts"` // documents, concatenated with Seps between/after them
	Seps  [][]byte `json:"seps,omitempty"`
	Pad   []byte   `json:"pad,omitempty"` // leading whitespace padding (alignment to refill boundaries)
	T     string   `json:"t"`
	Flags []string `json:"flags,omitempty"` // "usenumber", "disallowunknown"
	Ops   []string `json:"ops,omitempty"`   // op script; empty = decode until error/EOF
	// Family selects the delivery enumeration:
	//  "cuts1" every single cut, "cuts2" every pair of cuts, "sizes" fixed piece sizes 1..17,
	//  "cutlist" the explicit cut positions in Cuts (one delivery),
	//  "err1" one fault of kind ErrKind at every byte position,
	//  "explicit" exactly the delivery in Del.
	Family  string    `json:"family"`
	ErrKind string    `json:"err_kind,omitempty"` // transient | permanent | err_with_data | early_eof | eof_with_data | zero
	Cuts    []int     `json:"cuts,omitempty"`
	Del     []Deliver `json:"del,omitempty"`
	Scribble bool     `json:"scribble,omitempty"`
}

type Sweep struct {
	Order   string `json:"order"` // asc | desc | random
	Seed    uint64 `json:"seed"`
	Stride  int    `json:"stride"` // process every Stride-th type
	Offset  int    `json:"offset"`
	Reflect int    `json:"reflect"` // number of reflect-created types mixed in
	Limit   int    `json:"limit,omitempty"`
	Phased  bool   `json:"phased,omitempty"` // encode all types, then decode all, then encode all again
	Only    []int  `json:"only,omitempty"` // explicit type indices (replay/shrink/cold reference)
	OnlyR   []int  `json:"only_r,omitempty"` // explicit reflect-created type indices (cold reference)
	Exclude []int  `json:"exclude,omitempty"` // types that die even alone in a fresh process (filled by the driver)
	// Alias32: placement adversary. The heap is advanced until freshly allocated
	// run-time type descriptors get addresses whose low 32 bits fall into the
	// address window of the binary's own type descriptors, then Reflect run-time
	// types are created with light filler in between (their shapes depend only
	// on Seed%4 and Reflect, so that cold references are shared between plans).
	Alias32 bool `json:"alias32,omitempty"`
	// OnlyName + Cross: population independence. The listed types (by package
	// path and type text) are processed in this binary and in the binary of the
	// build variant Cross, which defines another population of types (other
	// addresses, another type at the top of the window); what is observed for a
	// type must not depend on the binary it lives in.
	OnlyName []string `json:"only_name,omitempty"`
	Cross    string   `json:"cross,omitempty"`
}

func (p *Plan) Hash() string {
	b, _ := json.Marshal(p)
	h := sha256.Sum256(b)
	return hex.EncodeToString(h[:8])
}

func HashOf(v interface{}) string {
	b, _ := json.Marshal(v)
	h := sha256.Sum256(b)
	return hex.EncodeToString(h[:12])
}

// ---------------------------------------------------------------- results

type Violation struct {
	Oracle string `json:"oracle"`         // e.g. chunk_independence, stream_vs_buffer, reader_error, conservation, termination, panic, isolation, race, deadlock, identity, aliasing
	Where  string `json:"where"`          // step / case locator
	Detail string `json:"detail"`         // human-readable diff
	Sig    string `json:"sig,omitempty"`  // signature used by shrinking and known-finding matching
	Case   *StreamFamily `json:"case,omitempty"` // for stream mode: the concrete failing case (family=explicit)
}

type Result struct {
	PlanHash   string            `json:"plan_hash"`
	Obs        map[string][]string `json:"obs,omitempty"` // session id -> observations, one per step
	Violations []Violation       `json:"violations,omitempty"`
	Faults     map[string]int64  `json:"faults,omitempty"`  // fault kind -> times it actually fired
	Probes     map[string]int64  `json:"probes,omitempty"`  // reach probes
	Cases      int64             `json:"cases,omitempty"`   // stream cases / steps executed
	Steps      int64             `json:"steps,omitempty"`   // logical steps ("simulated time")
	LogHash    string            `json:"log_hash,omitempty"`
	Interleave string            `json:"interleave,omitempty"` // hash of the switch sequence
	Switches   int               `json:"switches,omitempty"`
	Yields     uint64            `json:"yields,omitempty"`
	SwitchList []Point           `json:"switch_list,omitempty"`
	Deadlock   bool              `json:"deadlock,omitempty"`
	Excluded   int64             `json:"excluded,omitempty"`
	Samples    []json.RawMessage `json:"samples,omitempty"`
	Fatal      string            `json:"fatal,omitempty"` // filled by the driver when the worker died
}
