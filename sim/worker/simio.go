package worker

import (
	"errors"
	"fmt"
	"io"

	gojson "github.com/goccy/go-json"

	"github.com/goccy/go-json/verifsim"
	"vsim/plan"
)

// Seam site ids (class 0).
const (
	seamRead        = 1
	seamWrite       = 2
	seamCBMarshal   = 3
	seamCBUnmarshal = 4
	seamStep        = 5
)

var (
	ErrTransient = errors.New("sim-transient-read-error")
	ErrPermanent = errors.New("sim-permanent-read-error")
	ErrWrite     = errors.New("sim-write-error")
)

type livelock struct{ reads int }

// SimReader serves a byte script according to a list of deliveries.
type SimReader struct {
	data []byte
	pos  int
	del  []plan.Deliver
	di   int

	Reads       int   // Read calls so far
	Delivered   int   // bytes handed over so far
	FaultAtRead int   // index (1-based) of the first Read that returned a non-EOF error; 0 = none
	FaultPos    int   // bytes handed over up to and including that Read
	Injected    error // the error injected there
	ended       bool  // has started returning io.EOF for good
	perm        bool
	afterEnd    int
	budget      int
	OpIndex     *int // points at the current op counter of the stream runner
	FaultOp     int  // op index during which the fault fired (-1 = none)
	scribbleAll bool
}

func NewSimReader(data []byte, del []plan.Deliver) *SimReader {
	return &SimReader{data: data, del: del, budget: 64 + 4*len(data), FaultOp: -1}
}

// RestPlain returns the data the reader has not delivered yet, and whether the
// rest of its script is free of injected faults (no error, scribble or re-entry
// ahead, no permanent failure behind).
func (r *SimReader) RestPlain() ([]byte, bool) {
	// (a reader error is reported again by later calls on the same Decoder, as
	// encoding/json does: that is the reader's failure, not a state of the handle)
	if r.perm || r.scribbleAll || r.Injected != nil {
		return nil, false
	}
	for k := r.di; k < len(r.del); k++ {
		d := r.del[k]
		if (d.Err != "" && d.Err != "eof") || d.Scribble || d.Reenter {
			return nil, false
		}
	}
	if r.ended {
		return nil, true
	}
	// an "eof" attached before the end of the data truncates the input
	pos := r.pos
	for k := r.di; k < len(r.del); k++ {
		pos += r.del[k].N
		if r.del[k].Err == "eof" {
			if pos > len(r.data) {
				pos = len(r.data)
			}
			return append([]byte(nil), r.data[r.pos:pos]...), true
		}
	}
	return append([]byte(nil), r.data[r.pos:]...), true
}

func (r *SimReader) Read(p []byte) (n int, err error) {
	verifsim.Yield(seamRead)
	r.Reads++
	if len(p) == 0 {
		return 0, nil
	}
	if r.perm {
		r.afterEnd++
		if r.afterEnd > r.budget {
			panic(livelock{r.Reads})
		}
		return 0, ErrPermanent
	}
	if r.ended {
		r.afterEnd++
		if r.afterEnd > r.budget {
			panic(livelock{r.Reads})
		}
		return 0, io.EOF
	}
	left := len(r.data) - r.pos
	var d plan.Deliver
	scripted := false
	if r.di < len(r.del) {
		d = r.del[r.di]
		r.di++
		scripted = true
	} else {
		d = plan.Deliver{N: left}
		if left == 0 {
			d.Err = "eof"
		}
	}
	n = d.N
	if n > left {
		n = left
	}
	if n > len(p) {
		if scripted {
			// the library asked for less than the script wanted to give:
			// hand over what fits, keep the rest of this delivery for the
			// next call (without its error, which stays attached to the end).
			rest := d
			rest.N = d.N - len(p)
			r.di--
			r.del[r.di] = rest
			d.Err = ""
			d.Scribble = false
		}
		n = len(p)
	}
	copy(p, r.data[r.pos:r.pos+n])
	r.pos += n
	r.Delivered += n
	if scripted {
		if n < len(p) && len(r.data)-r.pos > 0 {
			if n == 0 && d.Err == "" {
				Count("zero_read")
			} else if d.Err == "" {
				Count("short_read")
			}
		}
		if n > 0 && d.Err == "" && r.pos < len(r.data) {
			Count("split")
		}
	}
	if d.Reenter {
		reenterLibrary()
	}
	if d.Scribble || r.scribbleAll {
		if n < len(p) {
			Count("scribble")
			for i := n; i < len(p); i++ {
				p[i] = 'S'
			}
		}
	}
	switch d.Err {
	case "":
		return n, nil
	case "eof":
		r.ended = true
		if n > 0 {
			Count("eof_with_data")
		}
		if r.pos < len(r.data) {
			Count("early_eof")
		}
		return n, io.EOF
	case "transient":
		r.noteFault(ErrTransient)
		if n > 0 {
			Count("err_with_data")
		} else {
			Count("transient_err")
		}
		return n, ErrTransient
	case "permanent":
		r.noteFault(ErrPermanent)
		r.perm = true
		if n > 0 {
			Count("err_with_data")
		}
		Count("permanent_err")
		return n, ErrPermanent
	}
	panic("bad deliver.err " + d.Err)
}

func (r *SimReader) noteFault(e error) {
	if r.FaultAtRead == 0 {
		r.FaultAtRead = r.Reads
		r.FaultPos = r.Delivered
		r.Injected = e
		if r.OpIndex != nil {
			r.FaultOp = *r.OpIndex
		}
	}
}

// reenterLibrary: a reader or writer that itself uses go-json (a logging
// writer, a reader decoding a frame header): nested use of the pooled contexts
// while an outer call is in progress.
func reenterLibrary() {
	Count("io_reenter")
	b, err := gojson.Marshal(map[string]interface{}{"nested": []interface{}{1, "two", Small{A: 3, B: "<b>", C: true}}})
	if err != nil || string(b) != `{"nested":[1,"two",{"A":3,"B":"\u003cb\u003e","C":true}]}` {
		panic(fmt.Sprintf("nested marshal wrong: %s %v", b, err))
	}
	var v struct {
		X []int
		Y map[string]string
	}
	if err := gojson.Unmarshal([]byte(`{"X":[1,2,3],"Y":{"k":"v"}}`), &v); err != nil || len(v.X) != 3 || v.Y["k"] != "v" {
		panic(fmt.Sprintf("nested unmarshal wrong: %+v %v", v, err))
	}
}

// WriteBufferViolations collects changes of a Write argument during Write
// (single-goroutine plans only; reported by the sessions engine).
var WriteBufferViolations []string

// SimWriter records what it is given and may fail.
type SimWriter struct {
	Buf    []byte
	Writes int
	w      plan.Writer
	Closed bool
}

func NewSimWriter(w *plan.Writer) *SimWriter {
	sw := &SimWriter{}
	if w != nil {
		sw.w = *w
	}
	return sw
}

func (w *SimWriter) Write(p []byte) (int, error) {
	verifsim.Yield(seamWrite)
	w.Writes++
	if w.w.Reenter {
		// the bytes handed to Write belong to the writer for the duration of the
		// call: they must not change while the writer itself uses the library
		before := string(p)
		reenterLibrary()
		if string(p) != before {
			Count("write_buffer_changed")
			WriteBufferViolations = append(WriteBufferViolations, fmt.Sprintf("the slice passed to Write changed during the call (a nested Marshal/Unmarshal inside Write overwrote it): before %s, after %s", short([]byte(before)), short(p)))
			p = []byte(before)
		}
	}
	if w.w.FailAt != 0 && w.Writes == w.w.FailAt {
		if w.w.Short {
			Count("writer_short")
			h := len(p) / 2
			w.Buf = append(w.Buf, p[:h]...)
			return h, ErrWrite
		}
		Count("writer_err")
		return 0, ErrWrite
	}
	w.Buf = append(w.Buf, p...)
	return len(p), nil
}

func (w *SimWriter) Close() error { w.Closed = true; return nil }

func (w *SimWriter) String() string {
	return fmt.Sprintf("writes=%d closed=%v out=%s", w.Writes, w.Closed, short(w.Buf))
}

// ---------------------------------------------------------------- counters

type counter struct {
	name string
	n    int64
}

// Counters are plain slices searched linearly inside norace functions: maps
// would be seen by the race detector (the runtime annotates map accesses
// itself) and would show up as harness-only reports in scheduled runs.
var (
	faultCounts = make([]counter, 0, 64)
	probeCounts = make([]counter, 0, 64)
)

//go:norace
func bump(cs *[]counter, name string, d int64) {
	for i := range *cs {
		if (*cs)[i].name == name {
			(*cs)[i].n += d
			return
		}
	}
	*cs = append(*cs, counter{name, d})
}

// Count records that a fault kind actually fired.
//
//go:norace
func Count(kind string) { bump(&faultCounts, kind, 1) }

//go:norace
func CountN(kind string, n int64) { bump(&faultCounts, kind, n) }

//go:norace
func Probe(name string) { bump(&probeCounts, name, 1) }

func countersMap(cs []counter) map[string]int64 {
	m := map[string]int64{}
	for _, c := range cs {
		m[c.name] = c.n
	}
	return m
}
