package worker

import (
	"encoding/json"
	"fmt"
	"strings"

	"vsim/plan"
)

var encodeTypes = []string{"Int", "Int8", "Uint64", "Float64", "Float32", "Bool", "String", "Bytes", "Number", "Raw", "Iface", "SliceInt", "SliceString", "SliceIface",
	"SliceSmall", "SlicePtrSmall", "SliceSlice", "ArrInt3", "ArrStr2", "ArrU8", "ArrSmall2", "MapStrInt", "MapStrIface", "MapStrString", "MapIntString", "MapStrSmall",
	"MapStrPtrSmall", "MapStrSlice", "MapStrMap", "PtrInt", "PtrPtrString", "PtrSmall", "Small", "Tagged", "Big", "Nested", "Inner", "Leaf", "Embedded", "Recursive", "MutA",
	"WithIface", "WithBytes", "StrTag", "CaseColl", "Ptrs", "Wide", "Floats", "Ints", "IntKeys", "WithShape", "MJ", "MJP", "MT", "MJC", "MJQ", "WithCB", "WithQ", "SliceMJ",
	"SlicePtrMJP", "MapMTInt", "UJ", "UT", "WithUCB"}

var decodeAllTypes = []string{"Odd", "Int", "Int8", "Int16", "Int32", "Int64", "Uint", "Uint8", "Uint16", "Uint32", "Uint64", "Float64", "Float32", "Bool", "String", "Bytes", "Number", "Raw",
	"Iface", "SliceInt", "SliceString", "SliceIface", "SliceBool", "SliceFloat", "SliceSmall", "SlicePtrSmall", "SliceSlice", "ArrInt3", "ArrStr2", "ArrU8", "ArrSmall2",
	"MapStrInt", "MapStrIface", "MapStrString", "MapIntString", "MapStrSmall", "MapStrPtrSmall", "MapStrSlice", "MapStrMap", "PtrInt", "PtrPtrString", "PtrSmall", "Small",
	"Tagged", "Big", "Nested", "Inner", "Leaf", "Embedded", "Recursive", "MutA", "WithIface", "WithBytes", "StrTag", "CaseColl", "Ptrs", "Wide", "Floats", "Ints", "IntKeys",
	"MT", "UJ", "UT", "UJC", "WithUCB", "SliceUJ", "MapStrUJ", "MapMTInt", "MJ", "WithNE"}

var prefixes = []string{"", " ", "\t", ">>", "é"}
var indents = []string{"", " ", "  ", "\t", "日"}

func pickType(r *plan.Rng, list []string) string {
	if r.Chance(1, 6) {
		return fmt.Sprintf("G%04d", r.Intn(len(genTypes)))
	}
	if r.Chance(1, 12) {
		return reflectTypeNames[r.Intn(len(reflectTypeNames))]
	}
	return list[r.Intn(len(list))]
}

func valueSeed(r *plan.Rng, faultyNum, faultyDen int) int64 {
	s := int64(r.U64() >> 12)
	if r.Chance(faultyNum, faultyDen) {
		return s<<3 | 7
	}
	return s<<3 | int64(r.Intn(7))
}

func randEncOpts(r *plan.Rng) []string {
	var o []string
	if r.Chance(1, 5) {
		o = append(o, "unordered")
	}
	if r.Chance(1, 5) {
		o = append(o, "nohtml")
	}
	if r.Chance(1, 8) {
		o = append(o, "noutf8")
	}
	if r.Chance(1, 8) {
		o = append(o, []string{"color_default", "color_empty", "color_custom"}[r.Intn(3)])
	}
	if r.Chance(1, 10) {
		o = append(o, []string{"debug", "debugdot", "dotonly", "dbgonly", "debug"}[r.Intn(5)])
	}
	if r.Chance(1, 4) {
		o = append(o, "ptr")
	}
	return o
}

func randEncodeStep(r *plan.Rng, faulty bool) plan.Step {
	st := plan.Step{T: pickType(r, encodeTypes)}
	fn, fd := 1, 10
	if !faulty {
		fn = 0
	}
	st.V = valueSeed(r, fn, fd)
	switch r.Intn(10) {
	case 0, 1, 2, 3, 4:
		st.Op = "marshal"
		if r.Chance(1, 2) {
			st.Opts = randEncOpts(r)
		}
	case 5, 6:
		st.Op = "marshal_indent"
		st.S1 = prefixes[r.Intn(len(prefixes))]
		st.S2 = indents[r.Intn(len(indents))]
		if r.Chance(1, 3) {
			st.Opts = randEncOpts(r)
		}
	case 7:
		st.Op = "marshal_noescape"
	default:
		st.Op = "marshal_ctx"
		st.S1 = []string{"", "secret", "ctxA", "ctxB"}[r.Intn(4)]
		if r.Chance(1, 3) {
			st.Opts = randEncOpts(r)
		}
	}
	if r.Chance(1, 12) {
		// outputs around the sizes at which buffers are grown, pooled or dropped
		st.T = []string{"SliceSmall", "SliceString", "SliceInt", "MapStrInt", "SliceIface"}[r.Intn(5)]
		st.Opts = append(st.Opts, "big")
		st.N = []int{300, 1200, 2500, 5000, 9000, 20000}[r.Intn(6)] + r.Intn(300)
	}
	if faulty && r.Chance(1, 25) {
		st.T = []string{"Unsupported", "Unsupported2", "Unsupported3", "Unsupported4"}[r.Intn(4)]
	}
	if faulty && r.Chance(1, 25) {
		st.Opts = append(st.Opts, "cyclic")
	}
	return st
}

func docFor(r *plan.Rng, t string, mutateNum, mutateDen int) []byte {
	ti := lookupType(t)
	doc := stdDoc(ti, int64(r.U64()>>8))
	if r.Chance(1, 12) {
		doc = []byte(shortDocs[r.Intn(len(shortDocs))])
	}
	if r.Chance(1, 8) {
		doc = dupKeys(doc, stdDoc(ti, int64(r.U64()>>8)))
	}
	if r.Chance(1, 6) {
		doc = nullify(doc, r)
	}
	if r.Chance(1, 10) {
		doc = escapeKey(doc, r)
	}
	if r.Chance(mutateNum, mutateDen) {
		doc = mutate(doc, r)
	}
	if r.Chance(1, 15) {
		// make unmarshaler callbacks misbehave
		tag := []string{"CBERR", "CBPANIC", "CBREENTER", "CBGC", "CBGROW"}[r.Intn(5)]
		s := string(doc)
		if i := strings.Index(s, `"`); i >= 0 {
			doc = []byte(s[:i+1] + tag + s[i+1:])
		}
	}
	return doc
}

func randDecodeStep(r *plan.Rng, faulty bool) plan.Step {
	st := plan.Step{T: pickType(r, decodeAllTypes)}
	mn := 1
	if !faulty {
		mn = 0
	}
	st.Doc = docFor(r, st.T, mn, 4)
	switch r.Intn(8) {
	case 0:
		st.Op = "unmarshal_ctx"
		st.S1 = []string{"", "secret", "ctxA"}[r.Intn(3)]
	case 1:
		st.Op = "unmarshal_noescape"
	default:
		st.Op = "unmarshal"
	}
	if r.Chance(1, 6) {
		st.Opts = append(st.Opts, "firstwin")
	}
	if r.Chance(1, 5) || st.T == "WithNE" {
		st.Opts = append(st.Opts, "prefill")
		st.V = valueSeed(r, 0, 1)
	}
	return st
}

func randUtilStep(r *plan.Rng) plan.Step {
	t := pickType(r, decodeAllTypes)
	st := plan.Step{Doc: docFor(r, t, 1, 4)}
	if r.Chance(1, 3) {
		// indented input
		var x interface{}
		if json.Unmarshal(st.Doc, &x) == nil {
			if b, err := json.MarshalIndent(x, " ", "  "); err == nil {
				st.Doc = b
			}
		}
	}
	switch r.Intn(4) {
	case 0:
		st.Op = "valid"
	case 1:
		st.Op = "compact"
	case 2:
		st.Op = "indent"
		st.S1 = prefixes[r.Intn(len(prefixes))]
		st.S2 = indents[r.Intn(len(indents))]
	default:
		st.Op = "htmlescape"
	}
	return st
}

func one(id string, st plan.Step) plan.Session { return plan.Session{ID: id, Steps: []plan.Step{st}} }

// randReader builds a reader script over several documents.
func randReader(r *plan.Rng, t string, ndocs int, faulty bool) *plan.Reader {
	var data []byte
	for i := 0; i < ndocs; i++ {
		data = append(data, docFor(r, t, 1, 6)...)
		data = append(data, sepChoices[r.Intn(len(sepChoices))]...)
	}
	rd := &plan.Reader{Data: data}
	n := len(data)
	pos := 0
	for pos < n && len(rd.Del) < 10 && r.Chance(3, 4) {
		k := r.Range(0, 1+n/2)
		d := plan.Deliver{N: k}
		if faulty {
			switch r.Intn(16) {
			case 0:
				d.Err = "transient"
			case 1:
				d.Err = "permanent"
			case 2:
				d.Err = "eof"
			case 3:
				d.Scribble = true
			case 4:
				d.Reenter = true
			}
		}
		rd.Del = append(rd.Del, d)
		pos += k
		if d.Err == "permanent" || d.Err == "eof" {
			break
		}
	}
	return rd
}

func decoderSession(r *plan.Rng, id string, faulty bool) plan.Session {
	t := pickType(r, []string{"Iface", "Small", "Nested", "SliceInt", "MapStrIface", "WithUCB", "Tagged", "String", "Float64", "WithBytes", "Recursive"})
	nd := r.Range(1, 4)
	s := plan.Session{ID: id}
	nw := plan.Step{Op: "dec_new", H: "d", Reader: randReader(r, t, nd, faulty)}
	if r.Chance(1, 6) {
		nw.Opts = append(nw.Opts, "usenumber")
	}
	if r.Chance(1, 6) {
		nw.Opts = append(nw.Opts, "disallowunknown")
	}
	s.Steps = append(s.Steps, nw)
	for k := r.Range(1, nd+3); k > 0; k-- {
		switch r.Intn(10) {
		case 0:
			s.Steps = append(s.Steps, plan.Step{Op: "dec_more", H: "d"})
		case 1:
			s.Steps = append(s.Steps, plan.Step{Op: "dec_token", H: "d"})
		case 2:
			s.Steps = append(s.Steps, plan.Step{Op: "dec_buffered", H: "d"})
		case 3:
			s.Steps = append(s.Steps, plan.Step{Op: "dec_decode_ctx", H: "d", T: t, S1: "dctx"})
		case 4:
			s.Steps = append(s.Steps, plan.Step{Op: "dec_decode", H: "d", T: t, Opts: []string{"firstwin"}})
		default:
			s.Steps = append(s.Steps, plan.Step{Op: "dec_decode", H: "d", T: t})
		}
	}
	return s
}

func encoderSession(r *plan.Rng, id string, faulty bool) plan.Session {
	s := plan.Session{ID: id}
	nw := plan.Step{Op: "enc_new", H: "e"}
	if faulty && r.Chance(1, 3) {
		nw.Writer = &plan.Writer{FailAt: r.Range(1, 3), Short: r.Bool()}
	}
	if r.Chance(1, 5) {
		if nw.Writer == nil {
			nw.Writer = &plan.Writer{}
		}
		nw.Writer.Reenter = true
	}
	if r.Chance(1, 3) {
		nw.S1 = prefixes[r.Intn(len(prefixes))]
		nw.S2 = indents[1+r.Intn(len(indents)-1)]
	}
	if r.Chance(1, 4) {
		nw.Opts = []string{"nohtml"}
	}
	s.Steps = append(s.Steps, nw)
	for k := r.Range(1, 4); k > 0; k-- {
		st := plan.Step{Op: "enc_encode", H: "e", T: pickType(r, encodeTypes), V: valueSeed(r, 1, 8)}
		if !faulty {
			st.V = valueSeed(r, 0, 1)
		}
		if r.Chance(1, 4) {
			st.Op = "enc_encode_ctx"
			st.S1 = "ectx"
		}
		if r.Chance(1, 4) {
			st.Opts = randEncOpts(r)
		}
		s.Steps = append(s.Steps, st)
	}
	return s
}

// ---------------------------------------------------------------- paths

var pathTexts = []string{"$", "$.a", "$.a.b", "$.a.b.c", "$.a[0]", "$.a[1].b", "$[0]", "$[2]", "$[*]", "$.a[*]", "$.a[*].b", "$..b", "$..a", "$.x.y.z",
	"$['a']", "$['a.b']", `$."a.b"`, `$."a.b".c`, "$.a['b']", "$.list[*].id", "$.list[0].tags[1]", "$.m.k.v", "$.é", "$.a.*", "$[*][0]", "$.deep.l1.l2.l3.l4"}

var badPathTexts = []string{"", "a", "$.", "$..", "$[", "$]", "$[]", "$[a]", "$.a[", "$.a[1", "$.[", "$.*a", "$$", "$.a..", "$['a", `$."a`, "$.a]b", "$[*", "$[-1]", "$[99999999999999999999]", "$.a.$", "$ .a", "$[1][", "$.'a'"}

var pathDocs = []string{
	`{"a":{"b":{"c":1,"d":[1,2]},"e":"x"},"x":{"y":{"z":true}}}`,
	`{"a":[{"b":1},{"b":2},{"c":3}],"list":[{"id":1,"tags":["p","q"]},{"id":2,"tags":[]}]}`,
	`[1,2,3]`, `[[1,2],[3,4],[5]]`, `{"a.b":{"c":"dot"},"a":{"b":"plain"}}`, `{"m":{"k":{"v":null}},"é":"uni"}`,
	`{"a":1}`, `{"a":null}`, `{"a":"str"}`, `[]`, `{}`, `null`, `123`, `"s"`,
	`{"deep":{"l1":{"l2":{"l3":{"l4":"bottom"}}}},"b":[{"b":{"b":1}}]}`,
	`{"a":{"b":[1,{"b":2}]},"b":3}`,
	`{"a":true}`, `[null]`, `{"a":false,"x":null}`, `[true,false,null]`, `{"a":[null,true]}`,
}

var badPathDocs = []string{
	`{"a":{"b":{"c":1,"d":[1,2]},"e":"x"}`, `{"a":[{"b":1},{"b":2}`, `[1,2,`, `{"a":{"b":}}`, `{"a":[1,2,x]}`, `{"a":{"b":1}}trailing`, ``, `{"a"`, `{"a":{"b":nul}}`, `[[1,2],[3,`,
	`{"a":[{"b":1},{"b":]}`, `{"a.b":{"c":"dot"},"a":{"b":"plain"}`, `{"a":tru}`,
}

func pathStep(r *plan.Rng, h string, shared bool, bad bool) plan.Step {
	st := plan.Step{H: h, Shared: shared}

	if bad {
		st.Doc = []byte(badPathDocs[r.Intn(len(badPathDocs))])
	} else {
		st.Doc = []byte(pathDocs[r.Intn(len(pathDocs))])
		if r.Chance(1, 8) {
			st.Doc = mutate(st.Doc, r)
		}
	}
	switch r.Intn(8) {
	case 0, 1:
		st.Op = "path_unmarshal"
		st.T = []string{"Iface", "SliceIface", "Int", "String", "MapStrIface", "SliceInt"}[r.Intn(6)]
	case 2:
		st.Op = "path_get"
		st.S2 = []string{"Iface", "Int", "String", "SliceIface"}[r.Intn(4)]
		if r.Chance(1, 2) {
			// a Go value (struct, pointer, slice of structs) as the source
			st.Doc = nil
			st.T = []string{"Nested", "Small", "Tagged", "WithIface", "PtrSmall", "SliceSmall", "MapStrSmall", "Recursive", "Embedded", "Big"}[r.Intn(10)]
			st.V = valueSeed(r, 0, 1)
		}
	case 3:
		st.Op = "path_string"
		st.Doc = nil
	default:
		st.Op = "path_extract"
		if Variant != "inst" && Variant != "inst-race" && r.Chance(1, 3) {
			// the caller overwrites what Extract returned (single-goroutine plans:
			// the probe writes memory another task could be reading)
			st.Probe = "mutate_output"
		}
	}
	return st
}

// pathSyntaxTexts: every prefix of every catalogue path, and single-character
// edits of them (most are malformed): CreatePath must reject or accept, never
// panic.
var pathSyntaxTexts []string

func init() {
	seen := map[string]bool{}
	add := func(s string) {
		if !seen[s] {
			seen[s] = true
			pathSyntaxTexts = append(pathSyntaxTexts, s)
		}
	}
	alpha := []string{"$", ".", "[", "]", "*", "'", "\"", "0", "a", " "}
	for _, t := range append(append([]string{}, pathTexts...), badPathTexts...) {
		rs := []rune(t)
		for i := 0; i <= len(rs); i++ {
			add(string(rs[:i]))
		}
		for i := 0; i < len(rs); i++ {
			add(string(rs[:i]) + string(rs[i+1:])) // deletion
			for _, a := range alpha {
				add(string(rs[:i]) + a + string(rs[i:])) // insertion
			}
		}
	}
}

func pathSyntaxSession(r *plan.Rng, id string, n int) plan.Session {
	s := plan.Session{ID: id}
	start := r.Intn(len(pathSyntaxTexts))
	for k := 0; k < n; k++ {
		s.Steps = append(s.Steps, plan.Step{Op: "path_new", H: fmt.Sprintf("x%d", k), S1: pathSyntaxTexts[(start+k)%len(pathSyntaxTexts)]})
	}
	return s
}

func randPathText(r *plan.Rng) string {
	if r.Chance(1, 6) {
		return pathSyntaxTexts[r.Intn(len(pathSyntaxTexts))]
	}
	switch r.Intn(10) {
	case 0:
		return badPathTexts[r.Intn(len(badPathTexts))]
	case 1:
		// random string over the path alphabet
		alpha := []string{"$", ".", "[", "]", "*", "'", "\"", "0", "1", "a", "b"}
		n := r.Range(1, 6)
		var sb strings.Builder
		sb.WriteString("$")
		for i := 0; i < n; i++ {
			sb.WriteString(alpha[r.Intn(len(alpha))])
		}
		return sb.String()
	}
	return pathTexts[r.Intn(len(pathTexts))]
}

// ---------------------------------------------------------------- queries

type qtype struct {
	T       string
	Queries []string
}

var queryTypes = []qtype{
	{"Small", []string{`["A"]`, `["B","C"]`, `["A","B","C"]`, `[]`, `["nope"]`, `["C"]`}},
	{"Nested", []string{`["id"]`, `["id","name"]`, `["id",{"in":["x"]}]`, `[{"in":["x","y"]},{"pin":["y"]}]`, `[{"ins":["x"]},"name"]`, `[{"min":["y"]}]`,
		`[{"in":[{"z":["l1","l3"]}]}]`, `[{"leaf":["l2"]},{"mleaf":["l1"]}]`, `["any","tags"]`, `[{"pins":["x",{"z":["l4"]}]}]`, `["nope",{"in":["nope"]}]`}},
	{"Inner", []string{`["x"]`, `["y",{"z":["l1"]}]`, `[{"z":["l2","l3"]}]`, `["x","y","z"]`}},
	{"Leaf", []string{`["l1"]`, `["l2","l4"]`, `["l3"]`}},
	{"Tagged", []string{`["name"]`, `["opt","f"]`, `["a<b&c","str"]`, `["p","name"]`}},
	{"WithQ", []string{`["q","id"]`, `["pq"]`, `["q","pq","s"]`, `["id"]`, `["id",{"q":["k1"]}]`, `[{"q":["k2","k3"]},{"pq":["k1"]}]`, `[{"sub":["x"]},"s"]`, `[{"l":["l1"]},{"m":["l2"]}]`, `["i","id"]`, `[{"sub":[{"z":["l1"]}]}]`}},
	{"Recursive", []string{`["v"]`, `["v",{"next":["v"]}]`, `[{"kids":["v"]}]`, `[{"next":[{"next":["v"]}]}]`}},
	{"Embedded", []string{`["ID"]`, `["own","Name"]`, `["Extra"]`}},
	{"Big", []string{`["F00","F01"]`, `["eleven",{"F13":["A"]}]`, `[{"F14":["B","C"]},"F19"]`, `["F15","F16"]`}},
	{"SliceSmall", []string{`["A"]`, `["B"]`}},
	{"MapStrSmall", []string{`["A","C"]`, `["B"]`}},
	{"PtrSmall", []string{`["A"]`, `["C"]`}},
	{"WithCB", []string{`["a","z"]`, `["c","a"]`, `["m"]`, `[{"c":["x"]},"a"]`, `["c"]`}},
	{"G0003", []string{`["F0"]`, `["F1"]`}},
}

func queryMarshalStep(r *plan.Rng, qt qtype, h string, shared bool) plan.Step {
	st := plan.Step{Op: "marshal_ctx", T: qt.T, V: valueSeed(r, 0, 1), H: h, Shared: shared, S1: []string{"", "qctx"}[r.Intn(2)]}
	if r.Chance(1, 4) {
		st.Opts = append(st.Opts, "ptr")
	}
	return st
}
