package worker

import (
	"encoding/json"
	"flag"
	"fmt"
	"os"
	"runtime"
	"runtime/debug"
	"runtime/metrics"
	"sync/atomic"
	"time"

	"vsim/plan"
)

// Main is the worker entry point.
//
//	worker exec -prop C09 -seed S -index I [-tier quick]   generate plan (S,I) and run it
//	worker exec -plan file [-only k]                       run the plan in file (only session k: cold reference)
//	worker gen  -prop C09 -seed S -index I                 print the plan only
//	worker describe                                        print catalogue information
//
// Output: one JSON object {"plan":…, "result":…} on stdout.
// memoryWatchdog ends the process when it maps more memory than the budget:
// the sandbox has no memory limit of its own, and a call that needs tens of
// gigabytes for a small input would take the machine down before the kernel
// reacts. The exit status 3 and the marker line are read by the driver.
func memoryWatchdog(limit uint64) {
	sample := []metrics.Sample{{Name: "/memory/classes/total:bytes"}}
	budget := 10 * time.Second
	if s := os.Getenv("VERIF_STEP_BUDGET"); s != "" {
		if d, err := time.ParseDuration(s); err == nil {
			budget = d
		}
	}
	for {
		time.Sleep(50 * time.Millisecond)
		// step watchdog (wall clock, confirmed by the driver with a larger
		// budget in a fresh process): one API call does not take this long
		if st := atomic.LoadInt64(&stepStart); st != 0 && time.Since(time.Unix(0, st)) > budget {
			fmt.Fprintf(os.Stderr, "\nfatal error: step watchdog: %s has not returned after %v\n", CurrentStep, budget)
			os.Exit(4)
		}
		metrics.Read(sample)
		if v := sample[0].Value.Uint64(); v > limit {
			fmt.Fprintf(os.Stderr, "\nfatal error: memory budget exceeded (%d MiB mapped, budget %d MiB) during %s\n", v>>20, limit>>20, CurrentStep)
			os.Exit(3)
		}
	}
}

// CurrentStep names the step being executed (for the watchdog's message);
// stepStart is when it began (unix nanoseconds, 0 = no step running).
var CurrentStep string
var stepStart int64

func beginStep(name string) {
	CurrentStep = name
	atomic.StoreInt64(&stepStart, time.Now().UnixNano())
}

func endStep() { atomic.StoreInt64(&stepStart, 0) }

func Main() {
	runtime.GOMAXPROCS(1)
	debug.SetGCPercent(-1)
	go memoryWatchdog(4 << 30)
	if len(os.Args) < 2 {
		fmt.Fprintln(os.Stderr, "usage: worker exec|gen|describe ...")
		os.Exit(2)
	}
	cmd := os.Args[1]
	fs := flag.NewFlagSet(cmd, flag.ExitOnError)
	prop := fs.String("prop", "", "property id")
	seed := fs.Int64("seed", 1, "seed")
	index := fs.Int("index", 0, "plan index")
	tier := fs.String("tier", "quick", "quick|thorough")
	planFile := fs.String("plan", "", "plan file")
	only := fs.Int("only", -1, "run only this session (cold reference)")
	variant := fs.String("variant", "", "build variant label")
	noPlan := fs.Bool("noplan", false, "omit the plan from the output")
	fs.Parse(os.Args[2:])
	Variant = *variant

	switch cmd {
	case "describe":
		describe(*prop, *tier)
		return
	case "dumpval":
		ti := lookupType(*prop)
		v := MakeValue(ti, *seed)
		fmt.Println(DumpValue(v))
		b, err := json.Marshal(v.Interface())
		fmt.Println(string(b), err)
		return
	case "gen", "exec":
		var p *plan.Plan
		if *planFile != "" {
			b, err := os.ReadFile(*planFile)
			if err != nil {
				fmt.Fprintln(os.Stderr, err)
				os.Exit(2)
			}
			p = &plan.Plan{}
			if err := json.Unmarshal(b, p); err != nil {
				fmt.Fprintln(os.Stderr, "bad plan:", err)
				os.Exit(2)
			}
		} else {
			p = Generate(*prop, *seed, *index, *tier)
		}
		if cmd == "gen" {
			out, _ := json.Marshal(p)
			os.Stdout.Write(out)
			return
		}
		if *only >= 0 {
			p = isolate(p, *only)
		}
		res := Execute(p)
		type output struct {
			Plan   *plan.Plan   `json:"plan,omitempty"`
			Result *plan.Result `json:"result"`
		}
		o := output{Result: res}
		if !*noPlan {
			o.Plan = p
		}
		out, err := json.Marshal(o)
		if err != nil {
			fmt.Fprintln(os.Stderr, "marshal result:", err)
			os.Exit(2)
		}
		os.Stdout.Write(out)
		os.Stdout.Write([]byte("\n"))
	default:
		fmt.Fprintln(os.Stderr, "unknown command", cmd)
		os.Exit(2)
	}
}

var Variant string

// isolate reduces a plan to the single session k, executed alone and first:
// the cold reference of O1. Shared handles become private ones.
func isolate(p *plan.Plan, k int) *plan.Plan {
	q := *p
	q.Sessions = []plan.Session{p.Sessions[k]}
	q.Order = nil
	q.Tasks = false
	q.Sched = plan.Sched{}
	q.Config.PoolPolicy = ""
	return &q
}

func Execute(p *plan.Plan) *plan.Result {
	res := &plan.Result{PlanHash: p.Hash()}
	switch p.Mode {
	case "stream":
		execStream(p, res)
	case "sessions":
		execSessions(p, res)
	case "typesweep":
		execSweep(p, res)
	default:
		fmt.Fprintln(os.Stderr, "unknown plan mode", p.Mode)
		os.Exit(2)
	}
	res.Faults = countersMap(faultCounts)
	res.Probes = countersMap(probeCounts)
	return res
}

func execStream(p *plan.Plan, res *plan.Result) {
	// stream plans are thousands of independent cases: nothing in their oracles
	// depends on when the collector runs, so it runs normally (with it off a
	// thorough plan accumulated garbage up to the memory budget)
	debug.SetGCPercent(100)
	for i := range p.Stream {
		f := &p.Stream[i]
		beginStep(fmt.Sprintf("stream family %d (%s, type %s, %d parts)", i, f.Family, f.T, len(f.Parts)))
		viols, cases, sample := runFamily(f)
		endStep()
		res.Cases += cases
		res.Steps += cases
		for _, v := range viols {
			if p.Prop == "C06" && v.Oracle != "panic" && v.Oracle != "termination" {
				continue
			}
			v.Where = fmt.Sprintf("family %d: %s", i, v.Where)
			res.Violations = append(res.Violations, v)
		}
		if sample != nil && len(res.Samples) < 2 {
			b, _ := json.Marshal(sample)
			res.Samples = append(res.Samples, b)
		}
	}
}

func describe(prop, tier string) {
	type d struct {
		Types []string `json:"types"`
		Gen   int      `json:"generated"`
		Plans int      `json:"plans"`
		Sweep int      `json:"sweep_types"`
		Names []string `json:"sweep_names,omitempty"`
	}
	out := d{Types: plainTypes(nil), Gen: len(genTypes), Plans: PlanCount(prop, tier), Sweep: sweepCount()}
	if prop == "C14" {
		out.Names = sweepNames()
	}
	b, _ := json.Marshal(out)
	os.Stdout.Write(b)
}
