package worker

import (
	"bytes"
	"encoding/json"
	"errors"
	"fmt"
	"io"
	"os"
	"reflect"
	"strings"

	gojson "github.com/goccy/go-json"
	"vsim/plan"
)

// opObs is what one operation on a Decoder showed.
type opObs struct {
	Op       string
	Class    string // ok | eof | error | panic | livelock
	Err      string
	Injected bool // errors.Is(err, injected reader error)
	Val      string
	Off      int64
	Buf      []byte
}

func (o opObs) String() string {
	return fmt.Sprintf("%s:%s val=%s off=%d err=%q", o.Op, o.Class, o.Val, o.Off, o.Err)
}

type streamRun struct {
	Obs      []opObs
	Reader   *SimReader
	ConsViol string // conservation violation text, "" if none
}

func hasFlag(fs []string, f string) bool {
	for _, x := range fs {
		if x == f {
			return true
		}
	}
	return false
}

// decoderAPI abstracts go-json's and encoding/json's Decoder.
type decoderAPI interface {
	Decode(v interface{}) error
	More() bool
	Token() (json.Token, error)
	InputOffset() int64
	Buffered() io.Reader
	UseNumber()
	DisallowUnknownFields()
}

type goDec struct{ *gojson.Decoder }

func (d goDec) Token() (json.Token, error) { t, err := d.Decoder.Token(); return t, err }

// runStream performs the op script on a fresh Decoder over a fresh SimReader.
// With std=true the standard library's decoder is driven instead (used only
// where the oracle needs an absolute notion, see DESIGN O2.3/O2.4).
func runStream(doc []byte, ti *TypeInfo, flags, ops []string, nparts int, del []plan.Deliver, scribble bool, std bool) (run streamRun) {
	delCopy := append([]plan.Deliver(nil), del...)
	rd := NewSimReader(doc, delCopy)
	rd.scribbleAll = scribble
	run.Reader = rd
	opIdx := 0
	rd.OpIndex = &opIdx
	var dec decoderAPI
	if std {
		dec = json.NewDecoder(rd)
	} else {
		dec = goDec{gojson.NewDecoder(rd)}
	}
	if hasFlag(flags, "usenumber") {
		dec.UseNumber()
	}
	if hasFlag(flags, "disallowunknown") {
		dec.DisallowUnknownFields()
	}
	auto := len(ops) == 0
	maxOps := len(ops)
	if auto {
		maxOps = nparts + 2
	}
	var prevOff int64
	for opIdx = 0; opIdx < maxOps; opIdx++ {
		op := "decode"
		if !auto {
			op = ops[opIdx]
		}
		o := doOp(dec, op, ti)
		run.Obs = append(run.Obs, o)
		if o.Class == "panic" || o.Class == "livelock" {
			break
		}
		// conservation (only meaningful for go-json)
		if !std && run.ConsViol == "" {
			off := safeOffset(dec)
			if off < prevOff {
				run.ConsViol = fmt.Sprintf("InputOffset went backwards: %d after %d (op %d %s)", off, prevOff, opIdx, op)
			} else if off > int64(rd.Delivered) {
				run.ConsViol = fmt.Sprintf("InputOffset %d exceeds the %d bytes delivered (op %d %s)", off, rd.Delivered, opIdx, op)
			}
			if op == "buffered" && o.Class == "ok" {
				end := off + int64(len(o.Buf))
				if end > int64(rd.Delivered) || off > int64(len(doc)) || end > int64(len(doc)) || !bytes.Equal(o.Buf, doc[off:end]) {
					run.ConsViol = fmt.Sprintf("Buffered() = %q is not the delivered input at InputOffset %d (delivered %d) (op %d)", short(o.Buf), off, rd.Delivered, opIdx)
				}
			}
			prevOff = off
		}
		if auto && o.Class != "ok" {
			break
		}
	}
	return run
}

func safeOffset(dec decoderAPI) (off int64) {
	defer func() {
		if r := recover(); r != nil {
			off = -1
		}
	}()
	return dec.InputOffset()
}

func doOp(dec decoderAPI, op string, ti *TypeInfo) (o opObs) {
	o.Op = op
	defer func() {
		if r := recover(); r != nil {
			if _, ok := r.(livelock); ok {
				o.Class = "livelock"
				o.Err = "reader step budget exceeded"
				return
			}
			o.Class = "panic"
			o.Err = fmt.Sprint(r)
		}
	}()
	classify := func(err error) {
		switch {
		case err == nil:
			o.Class = "ok"
		case err == io.EOF:
			o.Class = "eof"
			o.Err = err.Error()
		default:
			o.Class = "error"
			o.Err = err.Error()
			o.Injected = errors.Is(err, ErrTransient) || errors.Is(err, ErrPermanent)
		}
	}
	switch op {
	case "decode":
		p := reflect.New(ti.Type())
		err := dec.Decode(p.Interface())
		classify(err)
		if err == nil {
			o.Val = DumpValue(p.Elem())
			o.Off = dec.InputOffset()
		}
	case "decode_iface":
		var v interface{}
		err := dec.Decode(&v)
		classify(err)
		if err == nil {
			o.Val = Dump(v)
			o.Off = dec.InputOffset()
		}
	case "more":
		o.Class = "ok"
		o.Val = fmt.Sprint(dec.More())
	case "token":
		t, err := dec.Token()
		classify(err)
		if err == nil {
			o.Val = fmt.Sprintf("%T:%v", t, t)
			o.Off = dec.InputOffset()
		}
	case "offset":
		o.Class = "ok"
		o.Off = dec.InputOffset()
	case "buffered":
		o.Class = "ok"
		b, _ := io.ReadAll(dec.Buffered())
		o.Buf = b
	default:
		panic("unknown stream op " + op)
	}
	return o
}

// ---------------------------------------------------------------- oracle

type famCtx struct {
	f      *plan.StreamFamily
	ti     *TypeInfo
	doc    []byte
	ends   []int64 // offset just past part i
	ref    streamRun
	viols  []plan.Violation
	seen   map[string]bool
	cases  int64
	sample *plan.StreamFamily
}

func buildDoc(f *plan.StreamFamily) (doc []byte, ends []int64) {
	doc = append(doc, f.Pad...)
	for i, p := range f.Parts {
		// the value ends before the part's own trailing white space
		ends = append(ends, int64(len(doc)+len(bytes.TrimRight(p, " \t\r\n"))))
		doc = append(doc, p...)
		if i < len(f.Seps) {
			doc = append(doc, f.Seps[i]...)
		}
	}
	return
}

func (c *famCtx) explicit(del []plan.Deliver) *plan.StreamFamily {
	e := *c.f
	e.Family = "explicit"
	e.Del = append([]plan.Deliver(nil), del...)
	e.Cuts = nil
	if e.Del == nil {
		e.Del = []plan.Deliver{}
	}
	return &e
}

func (c *famCtx) report(oracle, sig, detail string, del []plan.Deliver) {
	full := oracle + "|" + sig
	if c.seen[full] {
		return
	}
	c.seen[full] = true
	if len(c.viols) >= 12 {
		return
	}
	c.viols = append(c.viols, plan.Violation{
		Oracle: oracle,
		Where:  fmt.Sprintf("type=%s doc=%s", c.f.T, short(c.doc)),
		Detail: detail,
		Sig:    full,
		Case:   c.explicit(del),
	})
}

func delString(del []plan.Deliver) string {
	var sb strings.Builder
	for i := 0; i < len(del); i++ {
		d := del[i]
		if i > 0 {
			sb.WriteString(" ")
		}
		run := 1
		for i+run < len(del) && del[i+run] == d {
			run++
		}
		fmt.Fprintf(&sb, "%d", d.N)
		if d.Err != "" {
			sb.WriteString("!" + d.Err)
		}
		if run > 2 {
			fmt.Fprintf(&sb, "x%d", run)
			i += run - 1
		}
	}
	return sb.String()
}

// tokenClass describes the bytes around a cut for signatures: which kind of
// token the first cut falls into (coarse; only used to group findings).
func cutContext(doc []byte, del []plan.Deliver) string {
	pos := 0
	for _, d := range del {
		pos += d.N
		if pos > 0 && pos < len(doc) {
			return fmt.Sprintf("%q|%q", tail(doc[:pos], 6), head(doc[pos:], 6))
		}
	}
	return ""
}

func tail(b []byte, n int) []byte {
	if len(b) > n {
		return b[len(b)-n:]
	}
	return b
}
func head(b []byte, n int) []byte {
	if len(b) > n {
		return b[:n]
	}
	return b
}

func (c *famCtx) run(del []plan.Deliver) streamRun {
	c.cases++
	return runStream(c.doc, c.ti, c.f.Flags, c.f.Ops, len(c.f.Parts), del, c.f.Scribble, false)
}

// checkCommon: panics, livelock, conservation, offsets after complete values.
func (c *famCtx) checkCommon(run streamRun, del []plan.Deliver) {
	for i, o := range run.Obs {
		switch o.Class {
		case "panic":
			c.report("panic", fmt.Sprintf("%s", o.Op), fmt.Sprintf("op %d %s panicked: %s (delivery %s)", i, o.Op, o.Err, delString(del)), del)
		case "livelock":
			c.report("termination", o.Op, fmt.Sprintf("op %d %s did not return within the reader step budget after end of input (delivery %s)", i, o.Op, delString(del)), del)
		}
	}
	if run.ConsViol != "" {
		c.report("conservation", strings.SplitN(run.ConsViol, " ", 3)[0], run.ConsViol+" (delivery "+delString(del)+")", del)
	}
	// InputOffset just past a completely decoded value
	if len(c.f.Ops) == 0 {
		for i, o := range run.Obs {
			if o.Class != "ok" || i >= len(c.ends) || !json.Valid(c.f.Parts[i]) {
				break
			}
			if hasFlag(c.f.Flags, "usenumber") || hasFlag(c.f.Flags, "disallowunknown") {
				break
			}
			// the whole part is the value only if buffer decoding of the part
			// gives this very value (a typed destination may stop early, e.g.
			// 1.5 into an int: input-space leniency, not this oracle's business)
			if uv, uerr, up := unmarshalInto(c.ti, c.f.Parts[i]); up != "" || uerr != nil || uv != o.Val {
				break
			}
			if o.Off != c.ends[i] {
				c.report("conservation", "offset_after_value",
					fmt.Sprintf("after successful Decode #%d InputOffset()=%d, the value ends at %d (delivery %s)", i, o.Off, c.ends[i], delString(del)), del)
				break
			}
		}
	}
}

// compare got with the reference run up to the first non-ok decode/token.
func (c *famCtx) compareRef(got streamRun, del []plan.Deliver, upto int) {
	ref := c.ref
	for i := 0; i < len(ref.Obs); i++ {
		if upto >= 0 && i >= upto {
			return
		}
		if i >= len(got.Obs) {
			c.report("chunk_independence", "short|"+ref.Obs[i].Op, fmt.Sprintf("op %d missing under delivery %s", i, delString(del)), del)
			return
		}
		r, g := ref.Obs[i], got.Obs[i]
		if g.Class == "panic" || g.Class == "livelock" {
			return // reported by checkCommon
		}
		if r.Class != g.Class {
			c.report("chunk_independence", fmt.Sprintf("%s|%s>%s", r.Op, r.Class, g.Class),
				fmt.Sprintf("op %d: unchunked %s, chunked %s; delivery [%s] cut context %s", i, r, g, delString(del), cutContext(c.doc, del)), del)
			return
		}
		if r.Class == "ok" {
			if r.Val != g.Val {
				c.report("chunk_independence", r.Op+"|value",
					fmt.Sprintf("op %d: unchunked value %s, chunked value %s; delivery [%s] cut context %s", i, r.Val, g.Val, delString(del), cutContext(c.doc, del)), del)
				return
			}
			if (r.Op == "decode" || r.Op == "decode_iface" || r.Op == "token") && r.Off != g.Off {
				c.report("chunk_independence", r.Op+"|offset",
					fmt.Sprintf("op %d: InputOffset unchunked %d, chunked %d; delivery [%s]", i, r.Off, g.Off, delString(del)), del)
				return
			}
		} else if r.Op == "decode" || r.Op == "decode_iface" || r.Op == "token" {
			return // after a failed call later behaviour is unspecified
		}
	}
}

func unmarshalInto(ti *TypeInfo, data []byte) (val string, err error, panicked string) {
	defer func() {
		if r := recover(); r != nil {
			panicked = fmt.Sprint(r)
		}
	}()
	p := reflect.New(ti.Type())
	err = gojson.Unmarshal(data, p.Interface())
	if err == nil {
		val = DumpValue(p.Elem())
	}
	return
}

// streamVsBuffer: O2.2.
func (c *famCtx) streamVsBuffer() {
	if len(c.f.Ops) != 0 || hasFlag(c.f.Flags, "usenumber") || hasFlag(c.f.Flags, "disallowunknown") {
		return
	}
	obs := c.ref.Obs
	// The verdict and value comparison with Unmarshal is made for texts that are
	// JSON (encoding/json's scanner accepts them). On other texts the two
	// decoders of go-json are differently lenient in many small ways; that is a
	// pure function of the text (property C05), shows up under every chunking
	// alike, and is left to input-space techniques. Chunk independence, the
	// reader-error rule, conservation and termination apply to every text.
	if len(c.f.Parts) == 1 {
		if !json.Valid(c.doc) {
			return
		}
		uv, uerr, up := unmarshalInto(c.ti, c.doc)
		if up != "" {
			return // a panic in Unmarshal is not this oracle's business
		}
		acceptStream := len(obs) >= 2 && obs[0].Class == "ok" && obs[1].Class == "eof"
		if acceptStream != (uerr == nil) {
			c.report("stream_vs_buffer", fmt.Sprintf("verdict|stream=%v", acceptStream),
				fmt.Sprintf("Unmarshal error=%v, but stream ops were %v", uerr, obs), nil)
			return
		}
		if acceptStream && obs[0].Val != uv {
			c.report("stream_vs_buffer", "value", fmt.Sprintf("Unmarshal gives %s, Decode gives %s", uv, obs[0].Val), nil)
		}
		return
	}
	for i, part := range c.f.Parts {
		if i >= len(obs) || !json.Valid(part) {
			return
		}
		uv, uerr, up := unmarshalInto(c.ti, part)
		if up != "" {
			return
		}
		if uerr != nil {
			// the i-th Decode must not succeed with the whole part consumed;
			// a prefix of an invalid part may legitimately decode (e.g. `1x`),
			// so only the "everything accepted" case is decidable here.
			return
		}
		if obs[i].Class != "ok" {
			c.report("stream_vs_buffer", "multi|verdict", fmt.Sprintf("document #%d %s is accepted by Unmarshal but Decode #%d gave %s", i, short(part), i, obs[i]), nil)
			return
		}
		if obs[i].Val != uv {
			c.report("stream_vs_buffer", "multi|value", fmt.Sprintf("document #%d: Unmarshal gives %s, Decode gives %s", i, uv, obs[i].Val), nil)
			return
		}
	}
	if len(obs) > len(c.f.Parts) && obs[len(c.f.Parts)].Class != "eof" && allOK(obs[:len(c.f.Parts)]) {
		c.report("stream_vs_buffer", "multi|end", fmt.Sprintf("after %d documents Decode gave %s instead of io.EOF", len(c.f.Parts), obs[len(c.f.Parts)]), nil)
	}
}

func allOK(obs []opObs) bool {
	for _, o := range obs {
		if o.Class != "ok" {
			return false
		}
	}
	return true
}

var continuations = [][]byte{nil, []byte("0"), []byte("x"), []byte(`"`), []byte("e"), []byte("}"), []byte("l"), []byte(" ")}

// readerErrorRule: O2.3 for one faulty run.
func (c *famCtx) readerErrorRule(got streamRun, del []plan.Deliver) {
	k := got.Reader.FaultOp
	if k < 0 || k >= len(got.Obs) {
		// the fault never fired during an operation: plain chunk independence
		c.compareRef(got, del, -1)
		return
	}
	c.compareRef(got, del, k)
	g := got.Obs[k]
	if g.Op != "decode" && g.Op != "decode_iface" && g.Op != "token" {
		return
	}
	P := c.doc[:got.Reader.FaultPos]
	switch g.Class {
	case "ok":
		for _, cont := range continuations {
			alt := append(append([]byte(nil), P...), cont...)
			c.cases++
			r := runStream(alt, c.ti, c.f.Flags, c.f.Ops, len(c.f.Parts), nil, false, false)
			if k >= len(r.Obs) || r.Obs[k].Class != "ok" || r.Obs[k].Val != g.Val {
				var alts string
				if k < len(r.Obs) {
					alts = r.Obs[k].String()
				}
				c.report("reader_error", g.Op+"|swallowed",
					fmt.Sprintf("op %d returned %s although the reader failed with %v after %q; had the input continued with %q the result would be %s (delivery [%s])",
						k, g, got.Reader.Injected, short(P), cont, alts, delString(del)), del)
				return
			}
		}
	case "eof", "error":
		if g.Injected {
			return
		}
		if c.ti.NoStd {
			return
		}
		c.cases++
		s := runStream(P, c.ti, c.f.Flags, c.f.Ops, len(c.f.Parts), nil, false, true)
		if k < len(s.Obs) {
			so := s.Obs[k]
			incomplete := so.Class == "eof" || (so.Class == "error" && so.Err == io.ErrUnexpectedEOF.Error())
			if incomplete {
				c.report("reader_error", g.Op+"|masked",
					fmt.Sprintf("op %d returned %s, but the reader failed with %v after %q and the text so far is merely incomplete: the reader's error is not reported (delivery [%s])",
						k, g, got.Reader.Injected, short(P), delString(del)), del)
			}
		}
	}
}

func runFamily(f *plan.StreamFamily) (viols []plan.Violation, cases int64, sample *plan.StreamFamily) {
	c := &famCtx{f: f, ti: lookupType(f.T), seen: map[string]bool{}}
	c.doc, c.ends = buildDoc(f)
	n := len(c.doc)
	c.ref = c.run(nil)
	c.checkCommon(c.ref, nil)
	c.streamVsBuffer()

	faultFree := func(del []plan.Deliver) {
		got := c.run(del)
		c.checkCommon(got, del)
		c.compareRef(got, del, -1)
		if c.sample == nil {
			c.sample = c.explicit(del)
		}
	}
	cutsToDel := func(cuts []int, eofWithData bool, zero bool) []plan.Deliver {
		var del []plan.Deliver
		prev := 0
		for _, p := range cuts {
			if p <= prev || p >= n {
				continue
			}
			del = append(del, plan.Deliver{N: p - prev})
			if zero {
				del = append(del, plan.Deliver{N: 0})
			}
			prev = p
		}
		if eofWithData {
			del = append(del, plan.Deliver{N: n - prev, Err: "eof"})
		}
		return del
	}
	switch f.Family {
	case "whole":
		// reference only
	case "explicit":
		hasErr := false
		for _, d := range f.Del {
			if d.Err == "transient" || d.Err == "permanent" {
				hasErr = true
			}
		}
		// an "eof" before the end of the data is a truncated input, not a
		// chunking of this one (shrinking candidates can produce it): only the
		// no-panic / termination oracles apply then
		earlyEOF := false
		sum := 0
		for _, d := range f.Del {
			sum += d.N
			if d.Err == "eof" && sum < n {
				earlyEOF = true
			}
		}
		got := c.run(f.Del)
		c.checkCommon(got, f.Del)
		if earlyEOF {
			// nothing to compare with
		} else if hasErr {
			c.readerErrorRule(got, f.Del)
		} else {
			c.compareRef(got, f.Del, -1)
		}
		c.sample = c.explicit(f.Del)
	case "cuts1":
		for p := 1; p < n; p++ {
			faultFree(cutsToDel([]int{p}, false, false))
			faultFree(cutsToDel([]int{p}, true, p%2 == 0))
		}
	case "cuts2":
		for p := 1; p < n; p++ {
			for q := p + 1; q < n; q++ {
				faultFree(cutsToDel([]int{p, q}, (p+q)%3 == 0, false))
			}
		}
	case "sizes":
		for sz := 1; sz <= 17; sz++ {
			var cuts []int
			for p := sz; p < n; p += sz {
				cuts = append(cuts, p)
			}
			faultFree(cutsToDel(cuts, sz%2 == 0, sz%5 == 0))
		}
	case "chunks":
		// large documents: piece sizes cycle through Cuts until the end of the
		// input (the stream buffer is grown and refilled many times)
		var del []plan.Deliver
		pos := 0
		for k := 0; pos < n && len(f.Cuts) > 0 && len(del) < 1<<16; k++ {
			sz := f.Cuts[k%len(f.Cuts)]
			if sz < 1 {
				sz = 1
			}
			del = append(del, plan.Deliver{N: sz})
			pos += sz
		}
		if pos < n {
			// (list capped: the rest in one piece, so that the EOF attached to the
			// last delivery below really is the end of the input)
			del = append(del, plan.Deliver{N: n - pos})
		}
		got := c.run(del)
		if os.Getenv("VERIF_DEBUG_CHUNKS") != "" {
			cls := ""
			for _, o := range got.Obs {
				cls += o.Class + " "
				if len(cls) > 60 {
					break
				}
			}
			fmt.Fprintf(os.Stderr, "chunks: T=%s n=%d parts=%d cuts=%v deliveries=%d reads=%d obs=%d [%s]\n", f.T, n, len(f.Parts), f.Cuts, len(del), got.Reader.Reads, len(got.Obs), cls)
		}
		c.checkCommon(got, del)
		c.compareRef(got, del, -1)
		if len(del) > 1 {
			// the same with end of input reported together with the last piece
			d2 := append([]plan.Deliver(nil), del...)
			d2[len(d2)-1].Err = "eof"
			got = c.run(d2)
			c.checkCommon(got, d2)
			c.compareRef(got, d2, -1)
			// and a transient reader error in the middle of the document
			d3 := append([]plan.Deliver(nil), del[:len(del)*2/3]...)
			d3 = append(d3, plan.Deliver{N: 0, Err: "transient"})
			got = c.run(d3)
			c.checkCommon(got, d3)
			c.readerErrorRule(got, d3)
		}
	case "cutlist":
		faultFree(cutsToDel(f.Cuts, false, false))
		faultFree(cutsToDel(f.Cuts, true, true))
	case "err1":
		// every byte position; for long documents (thorough tier only) a
		// strided subset, so that one family stays well inside the step budget
		stride := 1
		if n > 3000 {
			stride = n/3000 + 1
		}
		for p := 0; p <= n; p += stride {
			var del []plan.Deliver
			if p > 0 {
				del = append(del, plan.Deliver{N: p})
			}
			switch f.ErrKind {
			case "transient":
				del = append(del, plan.Deliver{N: 0, Err: "transient"})
			case "permanent":
				del = append(del, plan.Deliver{N: 0, Err: "permanent"})
			case "err_with_data":
				k := 3
				if n-p < k {
					k = n - p
				}
				del = append(del, plan.Deliver{N: k, Err: "transient"})
			case "early_eof":
				// the truncated document P must behave like P delivered whole
				if p == n {
					continue
				}
				sub := *f
				sub.Family = "cutlist"
				sub.Pad = nil
				sub.Parts = [][]byte{c.doc[:p]}
				sub.Seps = nil
				sub.Cuts = []int{p / 2}
				v2, n2, _ := runFamily(&sub)
				c.cases += n2
				for _, v := range v2 {
					if !c.seen[v.Sig] && len(c.viols) < 12 {
						c.seen[v.Sig] = true
						c.viols = append(c.viols, v)
					}
				}
				continue
			default:
				panic("bad err kind " + f.ErrKind)
			}
			got := c.run(del)
			c.checkCommon(got, del)
			c.readerErrorRule(got, del)
			if c.sample == nil && p == n/2 {
				c.sample = c.explicit(del)
			}
		}
	default:
		panic("unknown stream family " + f.Family)
	}
	return c.viols, c.cases, c.sample
}
