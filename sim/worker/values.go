package worker

import (
	"encoding/json"
	"fmt"
	"math"
	"reflect"
	"sort"
	"strconv"
	"strings"
	"unicode/utf8"

	"github.com/goccy/go-json/verifsim"
	"vsim/plan"
)

// ---------------------------------------------------------------- strings

var interestingStrings = []string{
	"", "a", "hello", "with space", "quote\"inside", "back\\slash", "new\nline", "tab\there",
	"<html>&amp;", "é", "日本語", "😀", "a😀b", "  ", "ctl\x01\x1f", "\x7f",
	"bad\xffutf8", "trunc\xe3\x81", "\xc0\xaf", "esc\\u0041", "null", "true", "123", "{}", "[]",
	"CBOK", "key.with.dot", "a b\tc", "\"", "\\", "/slash/", "\b\f\r",
}

func longString(r *plan.Rng, n int) string {
	var sb strings.Builder
	alphabet := []string{"a", "b", "z", " ", "é", "\\", "\"", "<", "😀", "\n", "0", "x"}
	for sb.Len() < n {
		sb.WriteString(alphabet[r.Intn(len(alphabet))])
	}
	return sb.String()
}

func genString(r *plan.Rng) string {
	switch r.Intn(20) {
	case 0:
		return longString(r, r.Range(500, 530))
	case 1:
		return longString(r, r.Range(1000, 1100))
	case 2:
		return longString(r, r.Range(4000, 4200))
	case 3:
		return strings.Repeat("p", r.Range(0, 70))
	case 4:
		// many ill-formed bytes: every one of them grows the stream buffer by two
		return strings.Repeat("\xff", r.Range(200, 700)) + "tail"
	}
	return interestingStrings[r.Intn(len(interestingStrings))]
}

func genKey(r *plan.Rng) string {
	keys := []string{"a", "b", "key", "k<", "é", "x y", "A", "", "long_key_name_that_is_longer", "q\"q", "0"}
	return keys[r.Intn(len(keys))]
}

var boundaryInts = []int64{0, 1, -1, 7, 10, 99, 100, 127, 128, -128, -129, 255, 256, 32767, 32768, -32768, 65535, 65536,
	2147483647, 2147483648, -2147483648, 4294967295, 4294967296, 9007199254740993, math.MaxInt64, math.MinInt64, 1234567890123456789, -999}

var boundaryFloats = []float64{0, 1, -1, 0.5, 1.5, 1e21, 1e-7, 1e20, 123456789.125, math.MaxFloat64, math.SmallestNonzeroFloat64,
	3.141592653589793, -2.5e-10, 1e6, 100, 0.1, 1.7976931348623157e308, 5e-324, 4.9406564584124654e-324, 16777216, 0.30000000000000004}

// ---------------------------------------------------------------- filler

// rawGuards: buffers of the caller that RawMessage values of the current step
// are sub-slices of; checked after the call (C12: the library must not write
// into the caller's memory, not even behind the message).
type rawGuard struct {
	full []byte
	n    int
	want string
}

var rawGuards []rawGuard

func checkRawGuards() string {
	if verifsim.Active() {
		return ""
	}
	defer func() { rawGuards = rawGuards[:0] }()
	for _, g := range rawGuards {
		if string(g.full[:g.n]) != g.want {
			return fmt.Sprintf("a RawMessage of the value was modified by the call: %q -> %q", g.want, g.full[:g.n])
		}
		for i := g.n; i < len(g.full); i++ {
			if g.full[i] != 0xA5 {
				return fmt.Sprintf("the call wrote into the caller's buffer behind a RawMessage %q (byte %d of the spare capacity is now %#x)", g.want, i-g.n, g.full[i])
			}
		}
	}
	return ""
}

// smallMaps is set from the plan's configuration (see plan.Config.SmallMaps).
var smallMaps bool

type filler struct {
	r      *plan.Rng
	faulty bool
	nodes  int
}

// MakeValue builds the catalogue value (T, seed). Seeds with the three low
// bits all set make callbacks and numbers misbehave (errors, panics, NaN).
func MakeValue(ti *TypeInfo, seed int64) reflect.Value {
	f := &filler{r: plan.Derive(uint64(seed), hashName(ti.Name)), faulty: seed&7 == 7}
	v := reflect.New(ti.Type()).Elem()
	f.fill(v, 0)
	return v
}

func hashName(s string) uint64 {
	var h uint64 = 1469598103934665603
	for i := 0; i < len(s); i++ {
		h ^= uint64(s[i])
		h *= 1099511628211
	}
	return h
}

var (
	typMJ  = reflect.TypeOf(MJ{})
	typMJP = reflect.TypeOf(MJP{})
	typMT  = reflect.TypeOf(MT{})
	typMJC = reflect.TypeOf(MJC{})
	typUJ  = reflect.TypeOf(UJ{})
	typUT  = reflect.TypeOf(UT{})
	typUJC = reflect.TypeOf(UJC{})
	typNum = reflect.TypeOf(json.Number(""))
	typRaw = reflect.TypeOf(json.RawMessage(nil))
)

func (f *filler) cbMode() int {
	if f.faulty {
		switch f.r.Intn(6) {
		case 0:
			return cbErr
		case 1:
			return cbPanic
		case 2:
			return cbBadJSON
		}
	}
	switch f.r.Intn(12) {
	case 0:
		return cbReenter
	case 1:
		return cbGC
	case 2:
		return cbGrow
	case 3:
		return cbYield
	}
	return cbOK
}

func (f *filler) fill(v reflect.Value, depth int) {
	f.nodes++
	r := f.r
	t := v.Type()
	switch t {
	case typMJ:
		v.Set(reflect.ValueOf(MJ{Mode: f.cbMode(), Pay: genString(r)}))
		return
	case typMJP:
		v.Set(reflect.ValueOf(MJP{Mode: f.cbMode(), Pay: genString(r)}))
		return
	case typMT:
		m := f.cbMode()
		if m == cbBadJSON {
			m = cbOK
		}
		v.Set(reflect.ValueOf(MT{Mode: m, Pay: genKey(r)}))
		return
	case typMJC:
		v.Set(reflect.ValueOf(MJC{Mode: f.cbMode(), Pay: genString(r)}))
		return
	case typUJ:
		docs := []string{`1`, `"x"`, `{"k":[1,2]}`, `[true,null]`, ``}
		v.Set(reflect.ValueOf(UJ{Got: docs[r.Intn(len(docs))]}))
		return
	case typUT:
		v.Set(reflect.ValueOf(UT{Got: genKey(r)}))
		return
	case typUJC:
		v.Set(reflect.ValueOf(UJC{Got: `"ujc"`}))
		return
	case typNum:
		nums := []string{"0", "1", "-1", "1.5", "1e10", "-0.25E-3", "123456789012345678901234567890", "0.1"}
		if f.faulty && r.Chance(1, 3) {
			nums = []string{"abc", "1..2", "", "--1", "0x10"}
		}
		v.SetString(nums[r.Intn(len(nums))])
		return
	case typRaw:
		raws := []string{`null`, `1`, `"s"`, `{"a":[1,2,{"b":null}]}`, `[1, 2,  3]`, `{"k" : "v"}`, `true`}
		if f.faulty && r.Chance(1, 3) {
			raws = []string{`{"a":`, `[1,]`, `nul`, ``}
		}
		if r.Chance(1, 8) {
			v.Set(reflect.Zero(t))
			return
		}
		// the message is a sub-slice of a larger buffer of the caller (spare
		// capacity behind it, filled with a marker that must survive every call)
		raw := raws[r.Intn(len(raws))]
		full := make([]byte, len(raw)+16)
		copy(full, raw)
		for i := len(raw); i < len(full); i++ {
			full[i] = 0xA5
		}
		if !verifsim.Active() {
			// (single-goroutine plans only: the list is harness state shared by all steps)
			rawGuards = append(rawGuards, rawGuard{full: full, n: len(raw), want: raw})
		}
		v.SetBytes(full[:len(raw):len(full)])
		return
	}
	deep := depth >= 4 || f.nodes > 300
	switch t.Kind() {
	case reflect.Bool:
		v.SetBool(r.Bool())
	case reflect.Int, reflect.Int8, reflect.Int16, reflect.Int32, reflect.Int64:
		x := boundaryInts[r.Intn(len(boundaryInts))]
		if r.Chance(1, 3) {
			x = int64(r.U64())
		}
		v.SetInt(x) // truncates to the width
	case reflect.Uint, reflect.Uint8, reflect.Uint16, reflect.Uint32, reflect.Uint64, reflect.Uintptr:
		x := uint64(boundaryInts[r.Intn(len(boundaryInts))])
		if r.Chance(1, 3) {
			x = r.U64()
		}
		v.SetUint(x)
	case reflect.Float32, reflect.Float64:
		x := boundaryFloats[r.Intn(len(boundaryFloats))]
		if r.Chance(1, 4) {
			x = math.Float64frombits(r.U64())
			if math.IsNaN(x) || math.IsInf(x, 0) {
				x = 42.25
			}
		}
		if t.Kind() == reflect.Float32 {
			if math.Abs(x) > math.MaxFloat32 {
				x = 1.25
			}
		}
		if f.faulty && r.Chance(1, 4) {
			x = []float64{math.NaN(), math.Inf(1), math.Inf(-1)}[r.Intn(3)]
		}
		v.SetFloat(x)
	case reflect.String:
		v.SetString(genString(r))
	case reflect.Slice:
		if r.Chance(1, 6) {
			return // nil
		}
		n := r.Intn(4)
		if deep {
			n = 0
		}
		if t.Elem().Kind() == reflect.Uint8 {
			n = r.Intn(40)
			b := make([]byte, n)
			for i := range b {
				b[i] = byte(r.U64())
			}
			v.Set(reflect.ValueOf(b).Convert(t))
			return
		}
		s := reflect.MakeSlice(t, n, n)
		for i := 0; i < n; i++ {
			f.fill(s.Index(i), depth+1)
		}
		v.Set(s)
	case reflect.Array:
		for i := 0; i < v.Len(); i++ {
			f.fill(v.Index(i), depth+1)
		}
	case reflect.Map:
		if r.Chance(1, 6) {
			return
		}
		n := r.Intn(4)
		if deep {
			n = 0
		}
		if (f.faulty || smallMaps) && n > 1 {
			n = 1
		}
		m := reflect.MakeMapWithSize(t, n)
		for i := 0; i < n; i++ {
			k := reflect.New(t.Key()).Elem()
			if t.Key().Kind() == reflect.String {
				k.SetString(genKey(r))
			} else {
				f.fill(k, depth+1)
				if t.Key() == typMT {
					// distinct map keys must have distinct texts (else the
					// member order of equal keys is Go's map order)
					k.Field(0).SetInt(cbOK)
				}
			}
			e := reflect.New(t.Elem()).Elem()
			f.fill(e, depth+1)
			m.SetMapIndex(k, e)
		}
		v.Set(m)
	case reflect.Ptr:
		if r.Chance(1, 4) || (deep && r.Chance(3, 4)) {
			return
		}
		p := reflect.New(t.Elem())
		f.fill(p.Elem(), depth+1)
		v.Set(p)
	case reflect.Interface:
		if t.NumMethod() != 0 {
			if t == reflect.TypeOf((*Marker)(nil)).Elem() {
				v.Set(reflect.ValueOf(&UJC{Got: `"m"`}))
				return
			}
			if r.Chance(1, 3) {
				return
			}
			v.Set(reflect.ValueOf(Sq{S: r.Intn(10)}))
			return
		}
		if x := f.genIface(depth); x != nil {
			v.Set(reflect.ValueOf(x))
		}
	case reflect.Struct:
		for i := 0; i < t.NumField(); i++ {
			fl := v.Field(i)
			if !fl.CanSet() {
				continue
			}
			f.fill(fl, depth+1)
		}
	case reflect.Chan:
		// stays nil; unsupported anyway
	}
}

func (f *filler) genIface(depth int) (out interface{}) {
	r := f.r
	defer func() {
		if out == nil {
			return
		}
	}()
	n := 14
	if depth >= 3 {
		n = 6
	}
	switch r.Intn(n) {
	case 0:
		return nil
	case 1:
		return boundaryFloats[r.Intn(len(boundaryFloats))]
	case 2:
		return genString(r)
	case 3:
		return r.Bool()
	case 4:
		return float64(r.Intn(1000))
	case 5:
		return json.Number("12.5")
	case 6:
		n := r.Intn(4)
		s := make([]interface{}, n)
		for i := range s {
			s[i] = f.genIface(depth + 1)
		}
		return s
	case 7:
		n := r.Intn(4)
		if smallMaps && n > 1 {
			n = 1
		}
		m := map[string]interface{}{}
		for i := 0; i < n; i++ {
			m[genKey(r)] = f.genIface(depth + 1)
		}
		return m
	case 8:
		return Small{A: r.Intn(100), B: genString(r), C: r.Bool()}
	case 9:
		return &Small{A: r.Intn(100), B: genString(r)}
	case 10:
		return []int{1, 2, r.Intn(9)}
	case 11:
		if smallMaps {
			return map[string]int{genKey(r): 2}
		}
		return map[string]int{"one": 1, genKey(r): 2}
	case 12:
		x := r.Intn(1 << 20)
		return &x
	default:
		v := reflect.New(reflect.TypeOf(Leaf{})).Elem()
		f.fill(v, depth+1)
		return v.Interface()
	}
}

// ---------------------------------------------------------------- dumper

// Dump renders a value canonically: kinds, lengths, contents, nil versus
// empty; never an address. Map members are sorted by their rendering.
func Dump(v interface{}) string {
	var sb strings.Builder
	d := &dumper{sb: &sb, seen: map[uintptr]bool{}}
	d.dump(reflect.ValueOf(v), 0)
	return sb.String()
}

func DumpValue(v reflect.Value) string {
	var sb strings.Builder
	d := &dumper{sb: &sb, seen: map[uintptr]bool{}}
	d.dump(v, 0)
	return sb.String()
}

type dumper struct {
	sb   *strings.Builder
	seen map[uintptr]bool
}

func (d *dumper) dump(v reflect.Value, depth int) {
	sb := d.sb
	if !v.IsValid() {
		sb.WriteString("<nil>")
		return
	}
	if depth > 60 {
		sb.WriteString("<deep>")
		return
	}
	switch v.Kind() {
	case reflect.Bool:
		fmt.Fprintf(sb, "%v", v.Bool())
	case reflect.Int, reflect.Int8, reflect.Int16, reflect.Int32, reflect.Int64:
		fmt.Fprintf(sb, "%s(%d)", v.Kind(), v.Int())
	case reflect.Uint, reflect.Uint8, reflect.Uint16, reflect.Uint32, reflect.Uint64, reflect.Uintptr:
		fmt.Fprintf(sb, "%s(%d)", v.Kind(), v.Uint())
	case reflect.Float32, reflect.Float64:
		fmt.Fprintf(sb, "%s(%s)", v.Kind(), strconv.FormatFloat(v.Float(), 'g', -1, 64))
	case reflect.String:
		s := v.String()
		if len(s) > 80 {
			fmt.Fprintf(sb, "str[%d:%x:%q..%q]", len(s), fnv(s), s[:20], s[len(s)-12:])
		} else {
			fmt.Fprintf(sb, "%q", s)
		}
	case reflect.Slice:
		if v.IsNil() {
			sb.WriteString("nil-slice")
			return
		}
		if v.Type().Elem().Kind() == reflect.Uint8 {
			b := v.Bytes()
			if len(b) > 80 {
				fmt.Fprintf(sb, "bytes[%d:%x]", len(b), fnv(string(b)))
			} else {
				fmt.Fprintf(sb, "bytes[%d]%q", len(b), string(b))
			}
			return
		}
		fmt.Fprintf(sb, "[%d:", v.Len())
		for i := 0; i < v.Len(); i++ {
			if i > 0 {
				sb.WriteString(",")
			}
			d.dump(v.Index(i), depth+1)
		}
		sb.WriteString("]")
	case reflect.Array:
		fmt.Fprintf(sb, "arr[%d:", v.Len())
		for i := 0; i < v.Len(); i++ {
			if i > 0 {
				sb.WriteString(",")
			}
			d.dump(v.Index(i), depth+1)
		}
		sb.WriteString("]")
	case reflect.Map:
		if v.IsNil() {
			sb.WriteString("nil-map")
			return
		}
		var items []string
		it := v.MapRange()
		for it.Next() {
			var s2 strings.Builder
			d2 := &dumper{sb: &s2, seen: d.seen}
			d2.dump(it.Key(), depth+1)
			s2.WriteString("=>")
			d2.dump(it.Value(), depth+1)
			items = append(items, s2.String())
		}
		sort.Strings(items)
		fmt.Fprintf(sb, "map[%d:%s]", v.Len(), strings.Join(items, ","))
	case reflect.Ptr:
		if v.IsNil() {
			sb.WriteString("nil-ptr")
			return
		}
		p := v.Pointer()
		if d.seen[p] && depth > 20 {
			sb.WriteString("&<cycle>")
			return
		}
		d.seen[p] = true
		sb.WriteString("&")
		d.dump(v.Elem(), depth+1)
	case reflect.Interface:
		if v.IsNil() {
			sb.WriteString("nil-iface")
			return
		}
		fmt.Fprintf(sb, "<%s>", v.Elem().Type())
		d.dump(v.Elem(), depth+1)
	case reflect.Struct:
		t := v.Type()
		sb.WriteString(t.Name())
		sb.WriteString("{")
		for i := 0; i < t.NumField(); i++ {
			if i > 0 {
				sb.WriteString(" ")
			}
			sb.WriteString(t.Field(i).Name)
			sb.WriteString(":")
			d.dump(v.Field(i), depth+1)
		}
		sb.WriteString("}")
	case reflect.Chan, reflect.Func, reflect.UnsafePointer:
		if v.IsNil() {
			sb.WriteString("nil-" + v.Kind().String())
		} else {
			sb.WriteString(v.Kind().String())
		}
	default:
		sb.WriteString("?" + v.Kind().String())
	}
}

func fnv(s string) uint32 {
	var h uint32 = 2166136261
	for i := 0; i < len(s); i++ {
		h ^= uint32(s[i])
		h *= 16777619
	}
	return h
}

// short renders bytes for observations: full when short, length+hash+ends
// otherwise.
func short(b []byte) string {
	if len(b) <= 200 && utf8.Valid(b) {
		return string(b)
	}
	if len(b) <= 200 {
		return fmt.Sprintf("%q", b)
	}
	return fmt.Sprintf("bytes[%d:%x:%q..%q]", len(b), fnv(string(b)), b[:40], b[len(b)-24:])
}
