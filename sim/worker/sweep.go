package worker

import (
	"encoding/json"
	"fmt"
	"os"
	"reflect"
	"sort"
	"unsafe"

	gojson "github.com/goccy/go-json"
	"github.com/goccy/go-json/verifsim"
	"vsim/plan"
)

//go:linkname typelinks reflect.typelinks
func typelinks() ([]unsafe.Pointer, [][]int32)

//go:linkname rtypeOff reflect.rtypeOff
func rtypeOff(unsafe.Pointer, int32) unsafe.Pointer

type sweepType struct {
	Addr uintptr
	T    reflect.Type // the element type T of a *T listed in the table
}

type eface struct {
	typ  unsafe.Pointer
	data unsafe.Pointer
}

var sweepTypes []sweepType

// loadSweepTypes reads the binary's type table the way go-json does and keeps
// every type the standard library can marshal (zero value) and that is small.
func loadSweepTypes() []sweepType {
	if sweepTypes != nil {
		return sweepTypes
	}
	sections, offsets := typelinks()
	seen := map[reflect.Type]bool{}
	for si, sec := range sections {
		for _, off := range offsets[si] {
			tp := rtypeOff(sec, off)
			var x interface{}
			(*eface)(unsafe.Pointer(&x)).typ = tp
			rt := reflect.TypeOf(x)
			if rt == nil || rt.Kind() != reflect.Ptr {
				continue
			}
			t := rt.Elem()
			if seen[t] || t.Size() > 4096 || !stdCanMarshal(t) {
				continue
			}
			seen[t] = true
			// address of T's descriptor
			var y interface{} = reflect.Zero(t).Interface()
			addr := uintptr((*eface)(unsafe.Pointer(&y)).typ)
			if y == nil { // interface types: use the pointer type's address
				addr = uintptr(tp)
			}
			sweepTypes = append(sweepTypes, sweepType{Addr: addr, T: t})
		}
	}
	sort.Slice(sweepTypes, func(i, j int) bool { return sweepTypes[i].Addr < sweepTypes[j].Addr })
	return sweepTypes
}

func stdCanMarshal(t reflect.Type) (ok bool) {
	defer func() {
		if r := recover(); r != nil {
			ok = false
		}
	}()
	switch t.Kind() {
	case reflect.Func, reflect.Chan, reflect.UnsafePointer, reflect.Complex64, reflect.Complex128, reflect.Invalid:
		return false
	case reflect.Interface:
		return false
	}
	if t.PkgPath() == "vsim/worker" || containsCallback(t, 0) {
		// catalogue callback types have behaviours of their own; keep the plain ones
		if containsCallback(t, 0) {
			return false
		}
	}
	_, err := json.Marshal(reflect.Zero(t).Interface())
	if err != nil {
		return false
	}
	_, err = json.Marshal(reflect.New(t).Interface())
	return err == nil
}

var cbTypes = map[reflect.Type]bool{}

func init() {
	for _, t := range []reflect.Type{typMJ, typMJP, typMT, typMJC, typUJ, typUT, typUJC, reflect.TypeOf(MJQ{})} {
		cbTypes[t] = true
	}
}

func containsCallback(t reflect.Type, depth int) bool {
	if cbTypes[t] {
		return true
	}
	if depth > 4 {
		return false
	}
	switch t.Kind() {
	case reflect.Ptr, reflect.Slice, reflect.Array:
		return containsCallback(t.Elem(), depth+1)
	case reflect.Map:
		return containsCallback(t.Key(), depth+1) || containsCallback(t.Elem(), depth+1)
	case reflect.Struct:
		for i := 0; i < t.NumField(); i++ {
			if containsCallback(t.Field(i).Type, depth+1) {
				return true
			}
		}
	}
	return false
}

func sweepDoc(t reflect.Type) []string {
	switch t.Kind() {
	case reflect.Struct, reflect.Map:
		return []string{`null`, `{}`}
	case reflect.Slice, reflect.Array:
		return []string{`null`, `[]`}
	case reflect.String:
		return []string{`null`, `""`}
	case reflect.Bool:
		return []string{`null`, `true`}
	case reflect.Ptr:
		return append([]string{`null`}, sweepDoc(t.Elem())[1:]...)
	case reflect.Interface:
		return []string{`null`, `1`}
	}
	return []string{`null`, `0`}
}

// sweepPhase processes one phase for one type: phase 0 and 2 encode
// (Marshal(zero), Marshal(&zero)), phase 1 decodes. A sweep runs either all
// phases per type, or phase by phase over all types ("phased": many types are
// encoded before the first decode happens and again afterwards); the cold
// reference of a type is the same three phases on that type alone.
func sweepPhase(t reflect.Type, phase int) (obs []string) {
	step := func(name string, f func() string) {
		defer func() {
			if r := recover(); r != nil {
				obs = append(obs, name+" panic: "+normPanic(r))
			}
		}()
		obs = append(obs, name+" "+f())
	}
	if phase == 0 || phase == 2 {
		step("marshal", func() string {
			b, err := gojson.Marshal(reflect.Zero(t).Interface())
			return fmt.Sprintf("err=%q out=%s", normErr(err), short(b))
		})
		step("marshal_ptr", func() string {
			b, err := gojson.Marshal(reflect.New(t).Interface())
			return fmt.Sprintf("err=%q out=%s", normErr(err), short(b))
		})
		if fv, ok := richValue(t); ok {
			step("marshal_filled", func() string {
				b, err := gojson.Marshal(fv.Interface())
				return fmt.Sprintf("err=%q out=%s", normErr(err), short(b))
			})
		}
		return obs
	}
	if fv, ok := richValue(t); ok {
		if doc, err := safeStdMarshal(fv.Interface()); err == nil {
			step("unmarshal_filled", func() string {
				p := reflect.New(t)
				err := gojson.Unmarshal(doc, p.Interface())
				return fmt.Sprintf("err=%q val=%s", normErr(err), clipS(DumpValue(p.Elem()), 600))
			})
		}
	}
	for _, d := range sweepDoc(t) {
		d := d
		step("unmarshal "+d, func() string {
			p := reflect.New(t)
			err := gojson.Unmarshal([]byte(d), p.Interface())
			return fmt.Sprintf("err=%q val=%s", normErr(err), clipS(DumpValue(p.Elem()), 400))
		})
	}
	return obs
}

type boundaryType struct {
	Addr  uintptr
	T     reflect.Type
	InPop bool
}

// boundaryTypes: the k lowest and k highest descriptors of the address window
// go-json derives from the type table (the table's entries and, for pointer
// types, their element types), whatever they are.
func boundaryTypes(k int) []boundaryType {
	sections, offsets := typelinks()
	seen := map[uintptr]reflect.Type{}
	for si, sec := range sections {
		for _, off := range offsets[si] {
			tp := rtypeOff(sec, off)
			var x interface{}
			(*eface)(unsafe.Pointer(&x)).typ = tp
			rt := reflect.TypeOf(x)
			seen[uintptr(tp)] = rt
			if rt.Kind() == reflect.Ptr {
				var y interface{} = reflect.Zero(rt).Interface()
				_ = y
				e := rt.Elem()
				seen[typeAddrOf(e)] = e
			}
		}
	}
	var addrs []uintptr
	for a := range seen {
		addrs = append(addrs, a)
	}
	sort.Slice(addrs, func(i, j int) bool { return addrs[i] < addrs[j] })
	pop := map[reflect.Type]bool{}
	for _, st := range loadSweepTypes() {
		pop[st.T] = true
		pop[reflect.PointerTo(st.T)] = true
	}
	var out []boundaryType
	for i, a := range addrs {
		if i < k || i >= len(addrs)-k {
			out = append(out, boundaryType{Addr: a, T: seen[a], InPop: pop[seen[a]]})
		}
	}
	return out
}

// typeAddrOf: address of the descriptor of t.
func typeAddrOf(t reflect.Type) uintptr {
	// reflect.Type is an interface holding *rtype: its data word is the descriptor
	return uintptr((*eface)(unsafe.Pointer(&t)).data)
}

// richSafe: types the generic filler can fill without surprises (no callbacks,
// no non-empty interfaces, no unexported or foreign parts): the generated and
// catalogue types and everything reflect builds from them.
func richSafe(t reflect.Type, depth int) bool {
	if depth > 6 || cbTypes[t] {
		return false
	}
	if pp := t.PkgPath(); pp != "" && pp != "vsim/worker" {
		return false
	}
	switch t.Kind() {
	case reflect.Bool, reflect.Int, reflect.Int8, reflect.Int16, reflect.Int32, reflect.Int64,
		reflect.Uint, reflect.Uint8, reflect.Uint16, reflect.Uint32, reflect.Uint64,
		reflect.Float32, reflect.Float64, reflect.String:
		return true
	case reflect.Ptr, reflect.Slice, reflect.Array:
		return richSafe(t.Elem(), depth+1)
	case reflect.Map:
		return t.Key().Kind() == reflect.String && t.Key().PkgPath() == "" && richSafe(t.Elem(), depth+1)
	case reflect.Struct:
		if t.NumField() == 0 {
			return false
		}
		for i := 0; i < t.NumField(); i++ {
			f := t.Field(i)
			if f.PkgPath != "" || !richSafe(f.Type, depth+1) {
				return false
			}
		}
		return true
	}
	return false
}

var richMemo = map[reflect.Type]*reflect.Value{}

// richValue: a filled value of the type, the same in every process (seeded by
// the type's own text), so that a program compiled for another type shows in
// what is encoded or decoded, not only at the identity assertion.
func richValue(t reflect.Type) (v reflect.Value, ok bool) {
	if m, hit := richMemo[t]; hit {
		if m == nil {
			return reflect.Value{}, false
		}
		return *m, true
	}
	richMemo[t] = nil
	if !richSafe(t, 0) {
		return reflect.Value{}, false
	}
	defer func() {
		if r := recover(); r != nil {
			ok = false
		}
	}()
	f := &filler{r: plan.Derive(0x5EED, hashName(t.String()))}
	v = reflect.New(t).Elem()
	f.fill(v, 0)
	richMemo[t] = &v
	Probe("sweep_filled_value")
	return v, true
}

func sweepOne(t reflect.Type) (obs []string) {
	for ph := 0; ph < 3; ph++ {
		obs = append(obs, sweepPhase(t, ph)...)
	}
	return obs
}

// reflect-created types: descriptors on the heap (fallback map path).
// ballast moves the heap forward between the creations of run-time types, so
// that their descriptors land at varied distances from the start of the heap
// (property C14: "wherever their descriptors happen to be placed in memory").
var ballast [][]byte
var ballastSmall []interface{}

func pushHeap(r *plan.Rng) {
	ballast = append(ballast, make([]byte, r.Range(1<<12, 1<<17)))
	// use up the partly filled spans of the small size classes, so that the
	// next descriptor comes from a fresh span behind the ballast
	// (run-time type descriptors contain pointers: the pointer-bearing span
	// classes are the ones that matter, pointer-free ones are used up as well)
	for _, words := range []int{4, 6, 8, 10, 12, 14, 16, 18, 20, 22, 24, 26, 28, 30, 32, 36, 40, 44, 48, 52, 56, 60, 64} {
		n := 8192/(words*8) + 2
		for i := 0; i < n; i++ {
			ballastSmall = append(ballastSmall, make([]*byte, words))
		}
	}
}

// frontier64 allocates one pointer-bearing 64-byte object (the size class of
// the pointer-type descriptors reflect creates) and returns the low 32 bits
// of its address.
func frontier64() uintptr {
	p := new([8]*byte)
	ballastSmall = append(ballastSmall, p)
	return uintptr(unsafe.Pointer(p)) & 0xffffffff
}

// advanceHeapToTypeWindow moves the heap forward until new small objects get
// addresses whose low 32 bits lie just below the window of the binary's own
// type descriptors. Reports whether that was possible (not in PIE builds with
// an unlucky load address, not if the heap is already beyond the window).
func advanceHeapToTypeWindow() bool {
	lo, hi := typeWindow()
	lo &= 0xffffffff
	hi &= 0xffffffff
	f := frontier64()
	if hi <= lo || f+(64<<10) > lo || lo-f > 192<<20 {
		Probe("alias32_window_unreachable")
		return false
	}
	for guard := 0; f+(160<<10) < lo && guard < 4096; guard++ {
		ballast = append(ballast, make([]byte, 64<<10))
		for i := 0; i < 130; i++ {
			frontier64()
		}
		f = frontier64()
	}
	for guard := 0; f+(24<<10) < lo && guard < 4096; guard++ {
		for i := 0; i < 130; i++ {
			frontier64()
		}
		f = frontier64()
	}
	Probe("alias32_window_reached")
	return true
}

// typeWindow: lowest and highest descriptor address of the binary's type table
// (entries and, for pointer types, their element types), computed without
// allocating, the way go-json derives its cache window.
func typeWindow() (lo, hi uintptr) {
	lo = ^uintptr(0)
	sections, offsets := typelinks()
	for si, sec := range sections {
		for _, off := range offsets[si] {
			tp := rtypeOff(sec, off)
			a := uintptr(tp)
			if a < lo {
				lo = a
			}
			if a > hi {
				hi = a
			}
			var t reflect.Type
			e := (*eface)(unsafe.Pointer(&t))
			*e = *(*eface)(unsafe.Pointer(&typeOfType))
			e.data = tp
			if t.Kind() == reflect.Ptr {
				a = typeAddrOf(t.Elem())
				if a < lo {
					lo = a
				}
				if a > hi {
					hi = a
				}
			}
		}
	}
	return
}

// typeOfType: any reflect.Type value (for its interface table word).
var typeOfType = reflect.TypeOf(0)

// lightPush: a little filler in the small pointer-bearing size classes, so
// that consecutive run-time descriptors walk slowly through the window.
func lightPush(r *plan.Rng) {
	for _, words := range []int{8, 10, 12, 14, 16, 20, 24} {
		for i := r.Intn(14); i > 0; i-- {
			ballastSmall = append(ballastSmall, make([]*byte, words))
		}
	}
}

func reflectTypes(n int, seed uint64, alias bool, place bool) []reflect.Type {
	r := plan.NewRng(seed)
	pr := plan.NewRng(seed ^ 0x91ACE)
	if alias {
		r = plan.NewRng(uint64(n)*7919 + seed%4)
		if place {
			place = advanceHeapToTypeWindow()
		}
	}
	base := []reflect.Type{reflect.TypeOf(0), reflect.TypeOf(""), reflect.TypeOf(true), reflect.TypeOf(1.5), reflect.TypeOf(Small{}), reflect.TypeOf([]int(nil)), reflect.TypeOf(Leaf{})}
	var out []reflect.Type
	for i := 0; i < n; i++ {
		if alias {
			if place {
				lightPush(pr)
			}
		} else if i > 0 {
			pushHeap(r)
		}
		b := base[r.Intn(len(base))]
		switch r.Intn(5) {
		case 0:
			out = append(out, reflect.SliceOf(reflect.ArrayOf(r.Range(1, 40), b)))
		case 1:
			out = append(out, reflect.MapOf(reflect.TypeOf(""), reflect.ArrayOf(r.Range(1, 40), b)))
		case 2:
			out = append(out, reflect.ArrayOf(r.Range(41, 90), b))
		case 3:
			nf := r.Range(1, 4)
			var fs []reflect.StructField
			for k := 0; k < nf; k++ {
				fs = append(fs, reflect.StructField{Name: fmt.Sprintf("R%d_%d", k, r.Intn(1000)), Type: base[r.Intn(len(base))], Tag: reflect.StructTag(fmt.Sprintf(`json:"r%d"`, k))})
			}
			out = append(out, reflect.StructOf(fs))
		default:
			out = append(out, reflect.PointerTo(reflect.ArrayOf(r.Range(91, 140), b)))
		}
		// the descriptor of the pointer type (the key of the decoder cache) is
		// created here and now, next to the type's own
		reflect.PointerTo(out[len(out)-1])
	}
	if alias && place && len(out) > 0 {
		lo, hi := typeWindow()
		lo &= 0xffffffff
		hi &= 0xffffffff
		in := 0
		for _, rt := range out {
			var y interface{} = reflect.New(rt).Interface()
			a := uintptr((*eface)(unsafe.Pointer(&y)).typ) & 0xffffffff
			if a >= lo && a <= hi {
				in++
			}
		}
		CountN("alias32_descriptors_in_window", int64(in))
	}
	return out
}

func execSweep(p *plan.Plan, res *plan.Result) {
	sw := p.Sweep
	// run-time types first: the placement adversary needs a heap that has not
	// yet grown past the window (reading the population allocates a lot)
	rts := reflectTypes(sw.Reflect, sw.Seed^0xABCD, sw.Alias32, len(sw.OnlyR) == 0 && len(sw.Only) == 0 && len(sw.OnlyName) == 0)
	types := loadSweepTypes()
	res.Obs = map[string][]string{}
	excl := map[int]bool{}
	for _, e := range sw.Exclude {
		excl[e] = true
	}
	var order []int
	if len(sw.OnlyName) > 0 {
		byName := map[string]int{}
		for i, st := range types {
			byName[qualName(st.T)] = i
		}
		for _, nm := range sw.OnlyName {
			idx, ok := byName[nm]
			if !ok {
				continue // not part of this binary's population
			}
			res.Obs["n:"+nm] = sweepOne(types[idx].T)
			res.Cases++
			res.Steps += 6
		}
		Probe("population_cross_batch")
		return
	}
	if len(sw.Only) > 0 {
		order = append(order, sw.Only...)
	} else {
		stride := sw.Stride
		if stride < 1 {
			stride = 1
		}
		for i := sw.Offset % stride; i < len(types); i += stride {
			order = append(order, i)
		}
		switch sw.Order {
		case "desc":
			for i, j := 0, len(order)-1; i < j; i, j = i+1, j-1 {
				order[i], order[j] = order[j], order[i]
			}
		case "random":
			r := plan.NewRng(sw.Seed)
			for i := len(order) - 1; i > 0; i-- {
				j := r.Intn(i + 1)
				order[i], order[j] = order[j], order[i]
			}
		}
		if sw.Limit > 0 && len(order) > sw.Limit {
			order = order[:sw.Limit]
		}
	}
	if os.Getenv("VERIF_DEBUG_ADDR") != "" {
		for i, rt := range rts {
			var y interface{} = reflect.Zero(rt).Interface()
			fmt.Fprintf(os.Stderr, "reflect type %d at %#x\n", i, uintptr((*eface)(unsafe.Pointer(&y)).typ))
		}
		ts := loadSweepTypes()
		fmt.Fprintf(os.Stderr, "table %#x .. %#x\n", ts[0].Addr, ts[len(ts)-1].Addr)
		for _, bt := range boundaryTypes(3) {
			fmt.Fprintf(os.Stderr, "boundary descriptor at %#x: %s (in population: %v)\n", bt.Addr, bt.T.String(), bt.InPop)
		}
	}
	for _, i := range sw.OnlyR {
		if i >= 0 && i < len(rts) {
			res.Obs[fmt.Sprintf("r%d:%s", i, rts[i].String())] = sweepOne(rts[i])
		}
	}
	if len(sw.OnlyR) > 0 {
		rts = nil
	}
	rstep := 0
	if len(rts) > 0 {
		rstep = len(order)/len(rts) + 1
	}
	ri := 0
	if sw.Phased && len(sw.Only) == 0 {
		for ph := 0; ph < 3; ph++ {
			for i, rt := range rts {
				key := fmt.Sprintf("r%d:%s", i, rt.String())
				res.Obs[key] = append(res.Obs[key], sweepPhase(rt, ph)...)
			}
			for _, idx := range order {
				if idx < 0 || idx >= len(types) || excl[idx] {
					continue
				}
				key := fmt.Sprintf("t%d", idx)
				if ph == 0 {
					res.Obs[key] = []string{types[idx].T.String()}
					res.Cases++
				}
				res.Obs[key] = append(res.Obs[key], sweepPhase(types[idx].T, ph)...)
				res.Steps += 2
			}
		}
		Probe("phased_sweep")
	} else {
		for k, idx := range order {
			if idx < 0 || idx >= len(types) || excl[idx] {
				continue
			}
			if rstep > 0 && k%rstep == 0 && ri < len(rts) {
				// reflect-created type in between: observations keyed by its shape
				rt := rts[ri]
				res.Obs[fmt.Sprintf("r%d:%s", ri, rt.String())] = sweepOne(rt)
				ri++
				Probe("reflect_type")
			}
			res.Obs[fmt.Sprintf("t%d", idx)] = append([]string{types[idx].T.String()}, sweepOne(types[idx].T)...)
			res.Cases++
			res.Steps += 6
		}
	}
	for _, v := range verifsim.IdentityViolations() {
		res.Violations = append(res.Violations, plan.Violation{Oracle: "identity", Where: "cache entry point", Sig: "identity|" + v.Kind, Detail: v.Text})
	}
	lo, hi := verifsim.IdentityStats()
	CountN("cache_returns_checked", int64(lo))
	CountN("distinct_programs", int64(hi))
}

// qualName identifies a type across binaries.
func qualName(t reflect.Type) string { return t.PkgPath() + "|" + t.String() }

// sweepNames: the population by name, in index order.
func sweepNames() []string {
	var out []string
	for _, st := range loadSweepTypes() {
		out = append(out, qualName(st.T))
	}
	return out
}

// DescribeTypes prints the sweep population size.
func sweepCount() int { return len(loadSweepTypes()) }
