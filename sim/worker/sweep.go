package worker

import (
	"encoding/json"
	"fmt"
	"os"
	"reflect"
	"sort"
	"unsafe"

	gojson "github.com/goccy/go-json"
	"github.com/goccy/go-json/verifsim"
	"vsim/plan"
)

//go:linkname typelinks reflect.typelinks
func typelinks() ([]unsafe.Pointer, [][]int32)

//go:linkname rtypeOff reflect.rtypeOff
func rtypeOff(unsafe.Pointer, int32) unsafe.Pointer

type sweepType struct {
	Addr uintptr
	T    reflect.Type // the element type T of a *T listed in the table
}

type eface struct {
	typ  unsafe.Pointer
	data unsafe.Pointer
}

var sweepTypes []sweepType

// loadSweepTypes reads the binary's type table the way go-json does and keeps
// every type the standard library can marshal (zero value) and that is small.
func loadSweepTypes() []sweepType {
	if sweepTypes != nil {
		return sweepTypes
	}
	sections, offsets := typelinks()
	seen := map[reflect.Type]bool{}
	for si, sec := range sections {
		for _, off := range offsets[si] {
			tp := rtypeOff(sec, off)
			var x interface{}
			(*eface)(unsafe.Pointer(&x)).typ = tp
			rt := reflect.TypeOf(x)
			if rt == nil || rt.Kind() != reflect.Ptr {
				continue
			}
			t := rt.Elem()
			if seen[t] || t.Size() > 4096 || !stdCanMarshal(t) {
				continue
			}
			seen[t] = true
			// address of T's descriptor
			var y interface{} = reflect.Zero(t).Interface()
			addr := uintptr((*eface)(unsafe.Pointer(&y)).typ)
			if y == nil { // interface types: use the pointer type's address
				addr = uintptr(tp)
			}
			sweepTypes = append(sweepTypes, sweepType{Addr: addr, T: t})
		}
	}
	sort.Slice(sweepTypes, func(i, j int) bool { return sweepTypes[i].Addr < sweepTypes[j].Addr })
	return sweepTypes
}

func stdCanMarshal(t reflect.Type) (ok bool) {
	defer func() {
		if r := recover(); r != nil {
			ok = false
		}
	}()
	switch t.Kind() {
	case reflect.Func, reflect.Chan, reflect.UnsafePointer, reflect.Complex64, reflect.Complex128, reflect.Invalid:
		return false
	case reflect.Interface:
		return false
	}
	if t.PkgPath() == "vsim/worker" || containsCallback(t, 0) {
		// catalogue callback types have behaviours of their own; keep the plain ones
		if containsCallback(t, 0) {
			return false
		}
	}
	_, err := json.Marshal(reflect.Zero(t).Interface())
	if err != nil {
		return false
	}
	_, err = json.Marshal(reflect.New(t).Interface())
	return err == nil
}

var cbTypes = map[reflect.Type]bool{}

func init() {
	for _, t := range []reflect.Type{typMJ, typMJP, typMT, typMJC, typUJ, typUT, typUJC, reflect.TypeOf(MJQ{})} {
		cbTypes[t] = true
	}
}

func containsCallback(t reflect.Type, depth int) bool {
	if cbTypes[t] {
		return true
	}
	if depth > 4 {
		return false
	}
	switch t.Kind() {
	case reflect.Ptr, reflect.Slice, reflect.Array:
		return containsCallback(t.Elem(), depth+1)
	case reflect.Map:
		return containsCallback(t.Key(), depth+1) || containsCallback(t.Elem(), depth+1)
	case reflect.Struct:
		for i := 0; i < t.NumField(); i++ {
			if containsCallback(t.Field(i).Type, depth+1) {
				return true
			}
		}
	}
	return false
}

func sweepDoc(t reflect.Type) []string {
	switch t.Kind() {
	case reflect.Struct, reflect.Map:
		return []string{`null`, `{}`}
	case reflect.Slice, reflect.Array:
		return []string{`null`, `[]`}
	case reflect.String:
		return []string{`null`, `""`}
	case reflect.Bool:
		return []string{`null`, `true`}
	case reflect.Ptr:
		return append([]string{`null`}, sweepDoc(t.Elem())[1:]...)
	case reflect.Interface:
		return []string{`null`, `1`}
	}
	return []string{`null`, `0`}
}

// sweepPhase processes one phase for one type: phase 0 and 2 encode
// (Marshal(zero), Marshal(&zero)), phase 1 decodes. A sweep runs either all
// phases per type, or phase by phase over all types ("phased": many types are
// encoded before the first decode happens and again afterwards); the cold
// reference of a type is the same three phases on that type alone.
func sweepPhase(t reflect.Type, phase int) (obs []string) {
	step := func(name string, f func() string) {
		defer func() {
			if r := recover(); r != nil {
				obs = append(obs, name+" panic: "+normPanic(r))
			}
		}()
		obs = append(obs, name+" "+f())
	}
	if phase == 0 || phase == 2 {
		step("marshal", func() string {
			b, err := gojson.Marshal(reflect.Zero(t).Interface())
			return fmt.Sprintf("err=%q out=%s", normErr(err), short(b))
		})
		step("marshal_ptr", func() string {
			b, err := gojson.Marshal(reflect.New(t).Interface())
			return fmt.Sprintf("err=%q out=%s", normErr(err), short(b))
		})
		return obs
	}
	for _, d := range sweepDoc(t) {
		d := d
		step("unmarshal "+d, func() string {
			p := reflect.New(t)
			err := gojson.Unmarshal([]byte(d), p.Interface())
			return fmt.Sprintf("err=%q val=%s", normErr(err), clipS(DumpValue(p.Elem()), 400))
		})
	}
	return obs
}

func sweepOne(t reflect.Type) (obs []string) {
	for ph := 0; ph < 3; ph++ {
		obs = append(obs, sweepPhase(t, ph)...)
	}
	return obs
}

// reflect-created types: descriptors on the heap (fallback map path).
// ballast moves the heap forward between the creations of run-time types, so
// that their descriptors land at varied distances from the start of the heap
// (property C14: "wherever their descriptors happen to be placed in memory").
var ballast [][]byte
var ballastSmall []interface{}

func pushHeap(r *plan.Rng) {
	ballast = append(ballast, make([]byte, r.Range(1<<12, 1<<17)))
	// use up the partly filled spans of the small size classes, so that the
	// next descriptor comes from a fresh span behind the ballast
	// (run-time type descriptors contain pointers: the pointer-bearing span
	// classes are the ones that matter, pointer-free ones are used up as well)
	for _, words := range []int{4, 6, 8, 10, 12, 14, 16, 18, 20, 22, 24, 26, 28, 30, 32, 36, 40, 44, 48, 52, 56, 60, 64} {
		n := 8192/(words*8) + 2
		for i := 0; i < n; i++ {
			ballastSmall = append(ballastSmall, make([]*byte, words))
		}
	}
}

func reflectTypes(n int, seed uint64) []reflect.Type {
	r := plan.NewRng(seed)
	base := []reflect.Type{reflect.TypeOf(0), reflect.TypeOf(""), reflect.TypeOf(true), reflect.TypeOf(1.5), reflect.TypeOf(Small{}), reflect.TypeOf([]int(nil)), reflect.TypeOf(Leaf{})}
	var out []reflect.Type
	for i := 0; i < n; i++ {
		if i > 0 {
			pushHeap(r)
		}
		b := base[r.Intn(len(base))]
		switch r.Intn(5) {
		case 0:
			out = append(out, reflect.SliceOf(reflect.ArrayOf(r.Range(1, 40), b)))
		case 1:
			out = append(out, reflect.MapOf(reflect.TypeOf(""), reflect.ArrayOf(r.Range(1, 40), b)))
		case 2:
			out = append(out, reflect.ArrayOf(r.Range(41, 90), b))
		case 3:
			nf := r.Range(1, 4)
			var fs []reflect.StructField
			for k := 0; k < nf; k++ {
				fs = append(fs, reflect.StructField{Name: fmt.Sprintf("R%d_%d", k, r.Intn(1000)), Type: base[r.Intn(len(base))], Tag: reflect.StructTag(fmt.Sprintf(`json:"r%d"`, k))})
			}
			out = append(out, reflect.StructOf(fs))
		default:
			out = append(out, reflect.PointerTo(reflect.ArrayOf(r.Range(91, 140), b)))
		}
	}
	return out
}

func execSweep(p *plan.Plan, res *plan.Result) {
	types := loadSweepTypes()
	sw := p.Sweep
	res.Obs = map[string][]string{}
	excl := map[int]bool{}
	for _, e := range sw.Exclude {
		excl[e] = true
	}
	var order []int
	if len(sw.Only) > 0 {
		order = append(order, sw.Only...)
	} else {
		stride := sw.Stride
		if stride < 1 {
			stride = 1
		}
		for i := sw.Offset % stride; i < len(types); i += stride {
			order = append(order, i)
		}
		switch sw.Order {
		case "desc":
			for i, j := 0, len(order)-1; i < j; i, j = i+1, j-1 {
				order[i], order[j] = order[j], order[i]
			}
		case "random":
			r := plan.NewRng(sw.Seed)
			for i := len(order) - 1; i > 0; i-- {
				j := r.Intn(i + 1)
				order[i], order[j] = order[j], order[i]
			}
		}
		if sw.Limit > 0 && len(order) > sw.Limit {
			order = order[:sw.Limit]
		}
	}
	rts := reflectTypes(sw.Reflect, sw.Seed^0xABCD)
	if os.Getenv("VERIF_DEBUG_ADDR") != "" {
		for i, rt := range rts {
			var y interface{} = reflect.Zero(rt).Interface()
			fmt.Fprintf(os.Stderr, "reflect type %d at %#x\n", i, uintptr((*eface)(unsafe.Pointer(&y)).typ))
		}
		ts := loadSweepTypes()
		fmt.Fprintf(os.Stderr, "table %#x .. %#x\n", ts[0].Addr, ts[len(ts)-1].Addr)
	}
	for _, i := range sw.OnlyR {
		if i >= 0 && i < len(rts) {
			res.Obs[fmt.Sprintf("r%d:%s", i, rts[i].String())] = sweepOne(rts[i])
		}
	}
	if len(sw.OnlyR) > 0 {
		rts = nil
	}
	rstep := 0
	if len(rts) > 0 {
		rstep = len(order)/len(rts) + 1
	}
	ri := 0
	if sw.Phased && len(sw.Only) == 0 {
		for ph := 0; ph < 3; ph++ {
			for i, rt := range rts {
				key := fmt.Sprintf("r%d:%s", i, rt.String())
				res.Obs[key] = append(res.Obs[key], sweepPhase(rt, ph)...)
			}
			for _, idx := range order {
				if idx < 0 || idx >= len(types) || excl[idx] {
					continue
				}
				key := fmt.Sprintf("t%d", idx)
				if ph == 0 {
					res.Obs[key] = []string{types[idx].T.String()}
					res.Cases++
				}
				res.Obs[key] = append(res.Obs[key], sweepPhase(types[idx].T, ph)...)
				res.Steps += 2
			}
		}
		Probe("phased_sweep")
	} else {
		for k, idx := range order {
			if idx < 0 || idx >= len(types) || excl[idx] {
				continue
			}
			if rstep > 0 && k%rstep == 0 && ri < len(rts) {
				// reflect-created type in between: observations keyed by its shape
				rt := rts[ri]
				res.Obs[fmt.Sprintf("r%d:%s", ri, rt.String())] = sweepOne(rt)
				ri++
				Probe("reflect_type")
			}
			res.Obs[fmt.Sprintf("t%d", idx)] = append([]string{types[idx].T.String()}, sweepOne(types[idx].T)...)
			res.Cases++
			res.Steps += 6
		}
	}
	for _, v := range verifsim.IdentityViolations() {
		res.Violations = append(res.Violations, plan.Violation{Oracle: "identity", Where: "cache entry point", Sig: "identity|" + v.Kind, Detail: v.Text})
	}
	lo, hi := verifsim.IdentityStats()
	CountN("cache_returns_checked", int64(lo))
	CountN("distinct_programs", int64(hi))
}

// DescribeTypes prints the sweep population size.
func sweepCount() int { return len(loadSweepTypes()) }
