package worker

import "vsim/plan"

func genC06(p *plan.Plan, r *plan.Rng, tier string) {}
func genC11(p *plan.Plan, r *plan.Rng, tier string) {}
func genC12(p *plan.Plan, r *plan.Rng, tier string) {}
func genC19(p *plan.Plan, r *plan.Rng, tier string) {}
func genC20(p *plan.Plan, r *plan.Rng, tier string) {}
func genC10(p *plan.Plan, r *plan.Rng, tier string) {}
func genC14(p *plan.Plan, r *plan.Rng, tier string) {}
func execSessions(p *plan.Plan, res *plan.Result) {}
func execSweep(p *plan.Plan, res *plan.Result)    {}
