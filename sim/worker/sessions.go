package worker

import (
	"bytes"
	"context"
	"encoding/json"
	"fmt"
	"io"
	"os"
	"reflect"
	"regexp"
	"runtime"
	"strings"
	"sync/atomic"
	"time"

	gojson "github.com/goccy/go-json"
	"github.com/goccy/go-json/verifsim"
	"vsim/plan"
)

type keptItem struct {
	step  int
	what  string
	val   reflect.Value // decoded destination (pointer) or []byte result
	bytes []byte
	snap  string
}

type sessState struct {
	idx     int
	s       *plan.Session
	next    int
	obs     []string
	handles map[string]interface{}
	kept    []keptItem
	viols   []plan.Violation
	prop    string
}

type sharedHandle struct {
	obj interface{}
	obs string
}

// encHandle: an Encoder together with the writer it was created over.
type encHandle struct {
	e *gojson.Encoder
	w *SimWriter
}

func newEncHandle(st *plan.Step) *encHandle {
	w := NewSimWriter(st.Writer)
	e := gojson.NewEncoder(w)
	if hasOpt(st, "nohtml") {
		e.SetEscapeHTML(false)
	}
	if st.S1 != "" || st.S2 != "" {
		e.SetIndent(st.S1, st.S2)
	}
	return &encHandle{e: e, w: w}
}

var sharedTable map[string]*sharedHandle

func hasOpt(st *plan.Step, o string) bool {
	for _, x := range st.Opts {
		if x == o {
			return true
		}
	}
	return false
}

var customScheme = &gojson.ColorScheme{
	Int:       gojson.ColorFormat{Header: "<i>", Footer: "</i>"},
	Uint:      gojson.ColorFormat{Header: "<u>", Footer: "</u>"},
	Float:     gojson.ColorFormat{Header: "<f>", Footer: "</f>"},
	Bool:      gojson.ColorFormat{Header: "<b>", Footer: "</b>"},
	String:    gojson.ColorFormat{Header: "<s>", Footer: "</s>"},
	Binary:    gojson.ColorFormat{Header: "<y>", Footer: "</y>"},
	ObjectKey: gojson.ColorFormat{Header: "<k>", Footer: "</k>"},
	Null:      gojson.ColorFormat{Header: "<n>", Footer: "</n>"},
}

// encOpts translates option names; writers created for debug options are
// returned so that what they received becomes part of the observation.
func encOpts(st *plan.Step) (opts []gojson.EncodeOptionFunc, dbg *SimWriter, dot *SimWriter) {
	for _, o := range st.Opts {
		switch o {
		case "unordered":
			opts = append(opts, gojson.UnorderedMap())
		case "nohtml":
			opts = append(opts, gojson.DisableHTMLEscape())
		case "noutf8":
			opts = append(opts, gojson.DisableNormalizeUTF8())
		case "debug":
			dbg = NewSimWriter(nil)
			opts = append(opts, gojson.Debug(), gojson.DebugWith(dbg))
		case "debugdot":
			dbg = NewSimWriter(nil)
			dot = NewSimWriter(nil)
			opts = append(opts, gojson.Debug(), gojson.DebugWith(dbg), gojson.DebugDOT(dot))
		case "dotonly":
			// a DOT writer without Debug(): nothing consumes it in this call
			dot = NewSimWriter(nil)
			opts = append(opts, gojson.DebugDOT(dot))
		case "dbgonly":
			dbg = NewSimWriter(nil)
			opts = append(opts, gojson.DebugWith(dbg))
		case "color_default":
			opts = append(opts, gojson.Colorize(gojson.DefaultColorScheme))
		case "color_empty":
			opts = append(opts, gojson.Colorize(&gojson.ColorScheme{}))
		case "color_custom":
			opts = append(opts, gojson.Colorize(customScheme))
		}
	}
	return
}

func decOpts(st *plan.Step) (opts []gojson.DecodeOptionFunc) {
	if hasOpt(st, "firstwin") {
		opts = append(opts, gojson.DecodeFieldPriorityFirstWin())
	}
	return
}

var (
	addrRe   = regexp.MustCompile(`0x[0-9a-fA-F]+`)
	gorouRe  = regexp.MustCompile(`goroutine \d+`)
	ptrDecRe = regexp.MustCompile(`\b\d{9,}\b`)
)

func normErr(err error) string {
	if err == nil {
		return ""
	}
	return addrRe.ReplaceAllString(err.Error(), "0xADDR")
}

// valueArg builds the argument of an encoding step.
func valueArg(st *plan.Step) interface{} {
	if !verifsim.Active() {
		rawGuards = rawGuards[:0] // only the buffers of this call's value are watched
	}
	ti := lookupType(st.T)
	if hasOpt(st, "big") && st.N > 0 {
		return bigValue(ti, st.V, st.N)
	}
	v := MakeValue(ti, st.V)
	if hasOpt(st, "ptr") {
		p := reflect.New(ti.Type())
		p.Elem().Set(v)
		return p.Interface()
	}
	if hasOpt(st, "cyclic") {
		return makeCyclic(st.V)
	}
	if hasOpt(st, "tiny") {
		// values whose encodings are short constants (candidates for being
		// served from shared literals): nil, booleans, zero, empty containers
		tiny := []interface{}{nil, true, false, 0, "", []int{}, map[string]int{}, struct{}{}, (*int)(nil), []interface{}{}, 0.0, json.Number("0")}
		return tiny[int(uint64(st.V)%uint64(len(tiny)))]
	}
	if ti.Type().Kind() == reflect.Interface {
		if v.IsNil() {
			return nil
		}
		return v.Elem().Interface()
	}
	return v.Interface()
}

// bigValue: a slice or map of n small members built from a few seeded ones
// (the output is made of many small appends).
func bigValue(ti *TypeInfo, seed int64, n int) interface{} {
	t := ti.Type()
	r := plan.NewRng(uint64(seed))
	switch t.Kind() {
	case reflect.Slice:
		s := reflect.MakeSlice(t, n, n)
		var protos []reflect.Value
		for k := 0; k < 7; k++ {
			e := reflect.New(t.Elem()).Elem()
			f := &filler{r: plan.Derive(uint64(seed), uint64(k)), nodes: 250}
			f.fill(e, 3)
			if e.Kind() == reflect.String && e.Len() > 40 {
				e.SetString(e.String()[:8])
			}
			protos = append(protos, e)
		}
		for i := 0; i < n; i++ {
			s.Index(i).Set(protos[r.Intn(len(protos))])
		}
		return s.Interface()
	case reflect.Map:
		m := reflect.MakeMapWithSize(t, n)
		for i := 0; i < n; i++ {
			k := reflect.New(t.Key()).Elem()
			k.SetString(fmt.Sprintf("k%05d", i))
			e := reflect.New(t.Elem()).Elem()
			e.SetInt(int64(i))
			m.SetMapIndex(k, e)
		}
		return m.Interface()
	}
	return MakeValue(ti, seed).Interface()
}

func makeCyclic(seed int64) interface{} {
	switch seed % 3 {
	case 0:
		r := &Recursive{V: 1}
		r.Next = &Recursive{V: 2, Next: r}
		return r
	case 1:
		m := map[string]interface{}{"a": 1}
		if smallMaps {
			// (scheduled plans: one entry, see asTasks)
			m = map[string]interface{}{}
		}
		m["self"] = m
		return m
	default:
		a := &MutA{N: 1}
		b := &MutB{S: "b", A: a}
		a.B = b
		return a
	}
}

func stepCtx(ss *sessState, st *plan.Step) (context.Context, string) {
	ctx := CtxWith(st.S1)
	if st.H != "" {
		h := ss.handle(st, st.H)
		if q, ok := h.(*gojson.FieldQuery); ok && q != nil {
			ctx = gojson.SetFieldQueryToContext(ctx, q)
		} else if h == nil {
			return ctx, "missing-handle"
		}
	}
	return ctx, ""
}

func (ss *sessState) handle(st *plan.Step, name string) interface{} {
	if st.Shared {
		if h := sharedTable[name]; h != nil {
			return h.obj
		}
		return nil
	}
	return ss.handles[name]
}

// buildQuery builds a FieldQuery from its JSON text either through
// FieldQueryString.Build or through BuildFieldQuery/BuildSubFieldQuery.
func buildQuery(text string, viaBuilder bool) (*gojson.FieldQuery, error) {
	if !viaBuilder {
		return gojson.FieldQueryString(text).Build()
	}
	var raw interface{}
	if err := json.Unmarshal([]byte(text), &raw); err != nil {
		return nil, err
	}
	var conv func(x interface{}) (gojson.FieldQueryString, error)
	conv = func(x interface{}) (gojson.FieldQueryString, error) {
		switch t := x.(type) {
		case string:
			return gojson.FieldQueryString(t), nil
		case map[string]interface{}:
			for k, v := range t {
				arr, _ := v.([]interface{})
				var subs []gojson.FieldQueryString
				for _, e := range arr {
					s, err := conv(e)
					if err != nil {
						return "", err
					}
					subs = append(subs, s)
				}
				return gojson.BuildSubFieldQuery(k).Fields(subs...), nil
			}
		}
		return "", fmt.Errorf("bad query element")
	}
	arr, ok := raw.([]interface{})
	if !ok {
		return nil, fmt.Errorf("query text must be an array")
	}
	var fields []gojson.FieldQueryString
	for _, e := range arr {
		s, err := conv(e)
		if err != nil {
			return nil, err
		}
		fields = append(fields, s)
	}
	return gojson.BuildFieldQuery(fields...)
}

func createHandle(st *plan.Step) (obj interface{}, obs string) {
	defer func() {
		if r := recover(); r != nil {
			obj, obs = nil, "panic: "+normPanic(r)
		}
	}()
	switch st.Op {
	case "path_new":
		p, err := gojson.CreatePath(st.S1)
		if err != nil {
			return nil, "path_new err=" + normErr(err)
		}
		return p, fmt.Sprintf("path_new ok root=%v sq=%v dq=%v str=%q", p.RootSelectorOnly(), p.UsedSingleQuotePathSelector(), p.UsedDoubleQuotePathSelector(), p.PathString())
	case "val_new":
		return newChain(st.N, st.V), fmt.Sprintf("val_new ok depth=%d", st.N)
	case "query_new", "query_build":
		q, err := buildQuery(st.S1, st.Op == "query_build")
		if err != nil {
			return nil, st.Op + " err=" + normErr(err)
		}
		return q, st.Op + " ok " + queryText(q)
	}
	panic("createHandle: bad op " + st.Op)
}

func normPanic(r interface{}) string {
	s := fmt.Sprint(r)
	if e, ok := r.(error); ok {
		s = e.Error()
	}
	s = addrRe.ReplaceAllString(s, "0xADDR")
	s = gorouRe.ReplaceAllString(s, "goroutine N")
	if len(s) > 300 {
		s = s[:300]
	}
	return s
}

var decodeOps = map[string]bool{"unmarshal": true, "unmarshal_ctx": true, "unmarshal_noescape": true, "dec_decode": true, "dec_decode_ctx": true, "dec_token": true,
	"dec_more": true, "dec_offset": true, "dec_buffered": true, "valid": true, "compact": true, "indent": true, "htmlescape": true,
	"path_new": true, "path_extract": true, "path_unmarshal": true, "path_get": true, "dec_new": true}

// runStep executes one step and returns its observation.
func (ss *sessState) runStep(i int) {
	st := &ss.s.Steps[i]
	if !verifsim.Active() {
		beginStep(fmt.Sprintf("session %s step %d (%s %s)", ss.s.ID, i, st.Op, st.T))
	} else {
		atomic.StoreInt64(&stepStart, time.Now().UnixNano())
	}
	verifsim.Yield(seamStep)
	obs := ss.doStep(i, st)
	if !verifsim.Active() {
		endStep()
	}
	ss.obs = append(ss.obs, obs)
	if !verifsim.Active() {
		ss.checkPastWriters(i, st)
	}
	if st.Bomb != nil || len(st.Doc) > 1<<20 || (st.Reader != nil && (st.Reader.Bomb != nil || len(st.Reader.Data) > 1<<20)) {
		// the collector is off between plan events; after a step on a huge
		// document the garbage of that step is released (deterministically)
		runtime.GC()
	}
	ss.checkKept(i)
}

// Writers handed to a call with a debug option belong to that call: once it
// has returned, nothing may write to them or close them. (Harness state shared
// by all sessions of a plan: single-goroutine plans only.)
type pastWriter struct {
	w      *SimWriter
	n      int
	closed bool
	where  string
}

var pastWriters []pastWriter

func notePastWriter(w *SimWriter, where string) {
	if w != nil && !verifsim.Active() {
		pastWriters = append(pastWriters, pastWriter{w: w, n: len(w.Buf), closed: w.Closed, where: where})
	}
}

func (ss *sessState) checkPastWriters(i int, st *plan.Step) {
	for k := range pastWriters {
		pw := &pastWriters[k]
		if len(pw.w.Buf) != pw.n || pw.w.Closed != pw.closed {
			ss.viols = append(ss.viols, plan.Violation{Oracle: "aliasing", Where: fmt.Sprintf("session %s step %d (%s)", ss.s.ID, i, st.Op), Sig: "aliasing|late_write|" + st.Op,
				Detail: fmt.Sprintf("the debug writer handed to %s received output after that call had returned: %d -> %d bytes, closed %v -> %v, during this step (%s)",
					pw.where, pw.n, len(pw.w.Buf), pw.closed, pw.w.Closed, clipS(string(pw.w.Buf[pw.n:]), 120))})
			pw.n, pw.closed = len(pw.w.Buf), pw.w.Closed
		}
	}
}

func (ss *sessState) doStep(i int, st *plan.Step) (obs string) {
	defer func() {
		if r := recover(); r != nil {
			if ll, ok := r.(livelock); ok {
				obs = "livelock"
				ss.viols = append(ss.viols, plan.Violation{Oracle: "termination", Where: fmt.Sprintf("session %s step %d (%s)", ss.s.ID, i, st.Op), Sig: "termination|" + st.Op,
					Detail: fmt.Sprintf("the call kept reading after end of input: %d Read calls", ll.reads)})
				return
			}
			msg := normPanic(r)
			obs = "panic: " + msg
			if (ss.prop == "C06" && decodeOps[st.Op] || ss.prop == "C20" && strings.HasPrefix(st.Op, "path_")) && !strings.Contains(msg, "callback-panic") {
				ss.viols = append(ss.viols, plan.Violation{Oracle: "panic", Where: fmt.Sprintf("session %s step %d (%s)", ss.s.ID, i, st.Op), Sig: "panic|" + st.Op + "|" + panicClass(msg),
					Detail: fmt.Sprintf("%s panicked: %s", st.Op, msg)})
			}
		}
	}()
	if st.Bomb != nil && st.Doc == nil {
		cp := *st
		cp.Doc = bomb(st.Bomb.Kind, st.Bomb.Depth)
		st = &cp
	}
	if st.Reader != nil && st.Reader.Bomb != nil && st.Reader.Data == nil {
		cp := *st
		rd := *st.Reader
		rd.Data = bomb(rd.Bomb.Kind, rd.Bomb.Depth)
		cp.Reader = &rd
		st = &cp
	}
	switch st.Op {
	// ------------------------------------------------ encoding
	case "marshal", "marshal_indent", "marshal_noescape", "marshal_ctx":
		v := valueArg(st)
		opts, dbg, dot := encOpts(st)
		var b []byte
		var err error
		switch st.Op {
		case "marshal":
			if len(opts) == 0 {
				b, err = gojson.Marshal(v)
			} else {
				b, err = gojson.MarshalWithOption(v, opts...)
			}
		case "marshal_indent":
			if len(opts) == 0 {
				b, err = gojson.MarshalIndent(v, st.S1, st.S2)
			} else {
				b, err = gojson.MarshalIndentWithOption(v, st.S1, st.S2, opts...)
			}
		case "marshal_noescape":
			b, err = gojson.MarshalNoEscape(v)
		case "marshal_ctx":
			ctx, bad := stepCtx(ss, st)
			if bad != "" {
				return bad
			}
			b, err = gojson.MarshalContext(ctx, v, opts...)
		}
		runtime.KeepAlive(v)
		if msg := checkRawGuards(); msg != "" && !verifsim.Active() {
			ss.viols = append(ss.viols, plan.Violation{Oracle: "aliasing", Where: fmt.Sprintf("session %s step %d (%s)", ss.s.ID, i, st.Op), Sig: "aliasing|value_modified", Detail: msg})
		}
		o := fmt.Sprintf("%s err=%q out=%s", st.Op, normErr(err), canonOut(st, b))
		if dbg != nil {
			o += " dbg=" + debugSummary(dbg.Buf)
		}
		if dot != nil {
			o += fmt.Sprintf(" dot=%d closed=%v", len(dot.Buf), dot.Closed)
		}
		notePastWriter(dbg, fmt.Sprintf("session %s step %d (%s)", ss.s.ID, i, st.Op))
		notePastWriter(dot, fmt.Sprintf("session %s step %d (%s)", ss.s.ID, i, st.Op))
		if err == nil {
			ss.keepBytes(i, "marshal result", b)
			if st.Probe == "mutate_output" {
				Count("mutate_output_after")
				full := b[:cap(b)]
				for k := range full {
					full[k] = 'X'
				}
				ss.kept = ss.kept[:len(ss.kept)-1]
			}
		}
		return o
	case "enc_new":
		if st.Shared {
			if sharedTable[st.H] == nil {
				return "missing-shared-handle"
			}
			return "enc_new"
		}
		ss.handles[st.H] = newEncHandle(st)
		return "enc_new"
	case "enc_encode", "enc_encode_ctx":
		eh, _ := ss.handle(st, st.H).(*encHandle)
		if eh == nil {
			return "missing-handle"
		}
		e, w := eh.e, eh.w
		v := valueArg(st)
		opts, dbg, edot := encOpts(st)
		defer func() {
			notePastWriter(dbg, fmt.Sprintf("session %s step %d (%s)", ss.s.ID, i, st.Op))
			notePastWriter(edot, fmt.Sprintf("session %s step %d (%s)", ss.s.ID, i, st.Op))
		}()
		before := len(w.Buf)
		var err error
		if st.Op == "enc_encode_ctx" {
			err = e.EncodeContext(CtxWith(st.S1), v, opts...)
		} else if len(opts) == 0 {
			err = e.Encode(v)
		} else {
			err = e.EncodeWithOption(v, opts...)
		}
		runtime.KeepAlive(v)
		if len(WriteBufferViolations) > 0 {
			for _, d := range WriteBufferViolations {
				ss.viols = append(ss.viols, plan.Violation{Oracle: "aliasing", Where: fmt.Sprintf("session %s step %d (%s)", ss.s.ID, i, st.Op), Sig: "aliasing|write_buffer_changed", Detail: d})
			}
			WriteBufferViolations = nil
		}
		o := fmt.Sprintf("%s err=%q wrote=%s", st.Op, normErr(err), canonOut(st, append([]byte{}, w.Buf[before:]...)))
		if dbg != nil {
			o += " dbg=" + debugSummary(dbg.Buf)
		}
		return o
	// ------------------------------------------------ decoding
	case "unmarshal", "unmarshal_ctx", "unmarshal_noescape":
		ti := lookupType(st.T)
		data, tail := spareCopy(st.Doc)
		orig := append([]byte(nil), st.Doc...)
		p := reflect.New(ti.Type())
		if hasOpt(st, "prefill") {
			p.Elem().Set(MakeValue(ti, st.V))
			if !verifsim.Active() {
				rawGuards = rawGuards[:0] // a destination may of course be overwritten
			}
		}
		if hasOpt(st, "prefill_ptr") && ti.Type().Kind() == reflect.Interface {
			// an interface{} destination that already holds a non-nil pointer:
			// the document is decoded into what it points to
			pre := []interface{}{&Small{A: 1}, new(int), &Leaf{L1: 2}, &[]int{1}, &map[string]int{"k": 1}, new(string), &Inner{X: 3}, new(float64), &Tagged{Name: "t"}, &Wide{A: 4},
				// typed nil pointers
				(*Small)(nil), (*int)(nil), (*Leaf)(nil), (*[]int)(nil), (*map[string]int)(nil), (*string)(nil), (*Inner)(nil), (*float64)(nil), (*Tagged)(nil), (*Wide)(nil)}
			p.Elem().Set(reflect.ValueOf(pre[int(uint64(st.V)%uint64(len(pre)))]))
		}
		var err error
		switch st.Op {
		case "unmarshal":
			if opts := decOpts(st); len(opts) > 0 {
				err = gojson.UnmarshalWithOption(data, p.Interface(), opts...)
			} else {
				err = gojson.Unmarshal(data, p.Interface())
			}
		case "unmarshal_ctx":
			err = gojson.UnmarshalContext(CtxWith(st.S1), data, p.Interface(), decOpts(st)...)
		case "unmarshal_noescape":
			err = gojson.UnmarshalNoEscape(data, p.Interface(), decOpts(st)...)
		}
		tailOK := true
		for _, b := range tail {
			if b != 0xA5 {
				tailOK = false
			}
		}
		if !bytes.Equal(data, orig) || !tailOK {
			ss.viols = append(ss.viols, plan.Violation{Oracle: "aliasing", Where: fmt.Sprintf("session %s step %d (%s)", ss.s.ID, i, st.Op), Sig: "aliasing|input_modified",
				Detail: fmt.Sprintf("the caller's input bytes (or the spare capacity behind them) were modified by the call: before %s after %s", short(orig), short(data))})
		}
		o := fmt.Sprintf("%s err=%q val=%s", st.Op, normErr(err), DumpValue(p.Elem()))
		ss.keepValue(i, "decoded value", p)
		if st.Probe == "scribble_spare" {
			// the caller appends to the byte slices it was given (writes into
			// their spare capacity): nothing else may change
			if n := scribbleSpare(p.Elem(), 0); n > 0 {
				CountN("scribble_spare_bytes", int64(n))
			}
			ss.checkKept(i)
		}
		if st.Probe == "mutate_input" {
			Count("mutate_input_after")
			for k := range data {
				data[k] ^= 0x55
			}
		}
		return o
	case "dec_new":
		rd := NewSimReader(st.Reader.Data, append([]plan.Deliver(nil), st.Reader.Del...))
		d := gojson.NewDecoder(rd)
		if hasOpt(st, "usenumber") {
			d.UseNumber()
		}
		if hasOpt(st, "disallowunknown") {
			d.DisallowUnknownFields()
		}
		ss.handles[st.H] = d
		ss.handles[st.H+".r"] = rd
		ss.handles[st.H+".opts"] = append([]string{}, st.Opts...)
		return "dec_new"
	case "dec_decode", "dec_decode_ctx", "dec_token", "dec_more", "dec_offset", "dec_buffered":
		d, _ := ss.handles[st.H].(*gojson.Decoder)
		if d == nil {
			return "missing-handle"
		}
		decOp := func(d *gojson.Decoder, keep bool) string {
			switch st.Op {
			case "dec_decode", "dec_decode_ctx":
				ti := lookupType(st.T)
				p := reflect.New(ti.Type())
				var err error
				if st.Op == "dec_decode_ctx" {
					err = d.DecodeContext(CtxWith(st.S1), p.Interface())
				} else if opts := decOpts(st); len(opts) > 0 {
					err = d.DecodeWithOption(p.Interface(), opts...)
				} else {
					err = d.Decode(p.Interface())
				}
				if keep {
					ss.keepValue(i, "value decoded from stream", p)
				}
				return fmt.Sprintf("%s err=%q val=%s", st.Op, normErr(err), DumpValue(p.Elem()))
			case "dec_token":
				t, err := d.Token()
				return fmt.Sprintf("dec_token err=%q tok=%T:%v", normErr(err), t, t)
			case "dec_more":
				return fmt.Sprintf("dec_more %v", d.More())
			case "dec_offset":
				return fmt.Sprintf("dec_offset %d", d.InputOffset())
			default:
				b, _ := io.ReadAll(d.Buffered())
				// how far the library reads ahead is its own business: only
				// report that the call returned
				return fmt.Sprintf("dec_buffered prefix_ok=%v", len(b) >= 0)
			}
		}
		obs := decOp(d, true)
		// "Reusing a Decoder after an error behaves like a fresh one": once a call
		// on this Decoder has failed, a fresh Decoder is set up over exactly the
		// input the old one has not consumed yet (what it holds buffered plus what
		// the reader has not delivered), and every further call is made on both.
		if fork, ok := ss.handles[st.H+".fork"].(*gojson.Decoder); ok {
			if st.Op == "dec_decode" || st.Op == "dec_decode_ctx" || st.Op == "dec_token" || st.Op == "dec_more" {
				fobs := func() (o string) {
					defer func() {
						if r := recover(); r != nil {
							o = "panic: " + normPanic(r)
						}
					}()
					return decOp(fork, false)
				}()
				Count("decoder_fork_compared")
				if fobs != obs {
					ss.viols = append(ss.viols, plan.Violation{Oracle: "handle_reuse", Where: fmt.Sprintf("session %s step %d (%s)", ss.s.ID, i, st.Op), Sig: "handle_reuse|" + st.Op,
						Detail: fmt.Sprintf("a Decoder used after a failed call differs from a fresh Decoder over the input it has not consumed yet:\n  used:  %s\n  fresh: %s", clipS(obs, 400), clipS(fobs, 400))})
					delete(ss.handles, st.H+".fork")
				}
			}
		} else if (ss.prop == "C11" || ss.prop == "C09") && !verifsim.Active() && ss.handles[st.H+".forked"] == nil &&
			(st.Op == "dec_decode" || st.Op == "dec_decode_ctx" || st.Op == "dec_token") &&
			(strings.Contains(obs, " err=") && !strings.Contains(obs, ` err=""`) || ss.forkEarly(st)) {
			if rd, ok := ss.handles[st.H+".r"].(*SimReader); ok {
				if rest, plain := rd.RestPlain(); plain {
					buffered, _ := io.ReadAll(d.Buffered())
					all := append(append([]byte(nil), buffered...), rest...)
					if bytes.IndexByte(all, 0) < 0 {
						f := gojson.NewDecoder(NewSimReader(all, nil))
						if o, _ := ss.handles[st.H+".opts"].([]string); o != nil {
							for _, x := range o {
								switch x {
								case "usenumber":
									f.UseNumber()
								case "disallowunknown":
									f.DisallowUnknownFields()
								}
							}
						}
						ss.handles[st.H+".fork"] = f
						ss.handles[st.H+".forked"] = true
						Count("decoder_fork")
					}
				}
			}
		}
		return obs
	// ------------------------------------------------ utilities
	case "valid":
		return fmt.Sprintf("valid %v", gojson.Valid(st.Doc))
	case "compact", "indent", "htmlescape":
		dst := bytes.NewBufferString("PRE")
		src := append([]byte(nil), st.Doc...)
		var err error
		switch st.Op {
		case "compact":
			err = gojson.Compact(dst, src)
		case "indent":
			err = gojson.Indent(dst, src, st.S1, st.S2)
		default:
			gojson.HTMLEscape(dst, src)
		}
		if !bytes.Equal(src, st.Doc) {
			ss.viols = append(ss.viols, plan.Violation{Oracle: "aliasing", Where: fmt.Sprintf("session %s step %d (%s)", ss.s.ID, i, st.Op), Sig: "aliasing|input_modified",
				Detail: "the source text was modified by " + st.Op})
		}
		return fmt.Sprintf("%s err=%q out=%s", st.Op, normErr(err), short(dst.Bytes()))
	// ------------------------------------------------ path
	case "val_marshal":
		c, _ := ss.handle(st, st.H).(*Chain)
		if c == nil {
			return "no-value"
		}
		opts, _, _ := encOpts(st)
		b, err := gojson.MarshalContext(CtxWith(st.S1), c, opts...)
		return fmt.Sprintf("val_marshal err=%q out=%s", normErr(err), short(b))
	case "path_new", "query_new", "query_build", "val_new":
		if st.Shared {
			h := sharedTable[st.H]
			if h == nil {
				return "missing-shared-handle"
			}
			return h.obs
		}
		obj, o := createHandle(st)
		if obj != nil {
			ss.handles[st.H] = obj
		}
		if strings.HasPrefix(o, "panic: ") && (ss.prop == "C06" || ss.prop == "C20") {
			ss.viols = append(ss.viols, plan.Violation{Oracle: "panic", Where: fmt.Sprintf("session %s step %d (%s)", ss.s.ID, i, st.Op), Sig: "panic|" + st.Op + "|" + panicClass(o[7:]),
				Detail: fmt.Sprintf("%s(%q) panicked: %s", st.Op, st.S1, o[7:])})
		}
		return o
	case "path_extract", "path_unmarshal", "path_get", "path_string":
		p, _ := ss.handle(st, st.H).(*gojson.Path)
		if p == nil {
			return "no-path"
		}
		switch st.Op {
		case "path_string":
			return fmt.Sprintf("path_string %q", p.PathString())
		case "path_extract":
			data, tail := spareCopy(st.Doc)
			parts, err := p.Extract(data, decOpts(st)...)
			ss.checkInput(i, st, data, tail)
			var sb strings.Builder
			keptBefore := len(ss.kept)
			for k, part := range parts {
				if k > 0 {
					sb.WriteString(" | ")
				}
				sb.WriteString(short(part))
				// what Extract hands out is the caller's: later calls must not change it
				ss.keepBytes(i, "extracted part", part)
			}
			o := fmt.Sprintf("path_extract err=%q n=%d parts=%s", normErr(err), len(parts), sb.String())
			if st.Probe == "mutate_output" {
				// ... and the caller may overwrite it: no later result may change
				Count("mutate_output_after")
				ss.kept = ss.kept[:keptBefore]
				for _, part := range parts {
					for k := range part {
						part[k] = 'X'
					}
				}
			}
			return o
		case "path_unmarshal":
			ti := lookupType(st.T)
			dst := reflect.New(ti.Type())
			data, tail := spareCopy(st.Doc)
			err := p.Unmarshal(data, dst.Interface(), decOpts(st)...)
			ss.checkInput(i, st, data, tail)
			ss.keepValue(i, "value decoded through a path", dst)
			return fmt.Sprintf("path_unmarshal err=%q val=%s", normErr(err), DumpValue(dst.Elem()))
		default:
			var src interface{}
			if st.T != "" && len(st.Doc) == 0 {
				src = valueArg(st)
			} else {
				json.Unmarshal(st.Doc, &src)
			}
			ti := lookupType("Iface")
			if st.S2 != "" {
				ti = lookupType(st.S2)
			}
			dst := reflect.New(ti.Type())
			err := p.Get(src, dst.Interface())
			if strings.Contains(p.PathString(), "..") {
				// recursive descent through Go maps collects matches in Go's map
				// iteration order, and a scalar destination receives "the first":
				// the outcome is unspecified by construction, only "it returned"
				// is observed
				_ = err
				return "path_get (recursive descent over Go maps: outcome depends on map iteration order, not compared)"
			}
			// Get walks Go maps: with several matches their order is Go's map
			// order, i.e. unspecified; compare the members as a multiset
			out := dst.Elem()
			if out.Kind() == reflect.Interface && !out.IsNil() {
				out = out.Elem()
			}
			if out.Kind() == reflect.Slice && out.Len() > 1 {
				var items []string
				for k := 0; k < out.Len(); k++ {
					items = append(items, DumpValue(out.Index(k)))
				}
				sortStrings(items)
				return fmt.Sprintf("path_get err=%q multiset=%v", normErr(err), items)
			}
			return fmt.Sprintf("path_get err=%q val=%s", normErr(err), DumpValue(dst.Elem()))
		}
	case "query_string":
		q, _ := ss.handle(st, st.H).(*gojson.FieldQuery)
		if q == nil {
			return "no-query"
		}
		s, err := q.QueryString()
		return fmt.Sprintf("query_string err=%q s=%s", normErr(err), s)
	case "drop":
		// the session forgets a handle of its own (a short-lived Path / FieldQuery)
		delete(ss.handles, st.H)
		return "drop"
	case "gc":
		runtime.GC()
		if st.N > 1 {
			runtime.GC()
		}
		return "gc"
	}
	panic("unknown step op " + st.Op)
}

// spareCopy gives the call a private copy of the document with spare capacity
// behind it (a caller's buf[:n] of a larger buffer); tail is that spare part,
// filled with a marker.
func spareCopy(doc []byte) (data, tail []byte) {
	full := make([]byte, len(doc)+24)
	copy(full, doc)
	for i := len(doc); i < len(full); i++ {
		full[i] = 0xA5
	}
	return full[:len(doc):len(full)], full[len(doc):]
}

func (ss *sessState) checkInput(i int, st *plan.Step, data, tail []byte) {
	ok := bytes.Equal(data, st.Doc)
	for _, b := range tail {
		if b != 0xA5 {
			ok = false
		}
	}
	if !ok {
		ss.viols = append(ss.viols, plan.Violation{Oracle: "aliasing", Where: fmt.Sprintf("session %s step %d (%s)", ss.s.ID, i, st.Op), Sig: "aliasing|input_modified",
			Detail: fmt.Sprintf("the caller's document (or the spare capacity behind it) was modified by %s: document %s", st.Op, short(st.Doc))})
	}
}

func panicClass(msg string) string {
	msg = regexp.MustCompile(`\d+`).ReplaceAllString(msg, "N")
	if len(msg) > 60 {
		msg = msg[:60]
	}
	return msg
}

// canonOut canonicalises an encoder output where the API is nondeterministic
// by contract (UnorderedMap: member order).
func canonOut(st *plan.Step, b []byte) string {
	if b == nil {
		return "<nil>"
	}
	if hasOpt(st, "unordered") {
		// compare as a multiset of lines/members: sort the bytes of every
		// top-level and nested object is overkill; a sorted multiset of
		// tokens split at commas is insensitive to member order only.
		var x interface{}
		if json.Unmarshal(b, &x) == nil {
			if c, err := json.Marshal(x); err == nil {
				return "unordered(canonical):" + short(c)
			}
		}
		// not plain JSON (colour markers, or a short write cut it): the member
		// order is unspecified, so only the length is comparable
		return fmt.Sprintf("unordered(len=%d)", len(b))
	}
	return short(b)
}

// debugSummary: the Debug dump prints raw slot contents (addresses) by
// design; only its line count class and header are kept.
func debugSummary(b []byte) string {
	if len(b) == 0 {
		return "empty"
	}
	lines := strings.Split(string(b), "\n")
	first := ptrDecRe.ReplaceAllString(addrRe.ReplaceAllString(lines[0], "0xADDR"), "N")
	return fmt.Sprintf("nonempty first=%q", clipS(first, 60))
}

func clipS(s string, n int) string {
	if len(s) > n {
		return s[:n]
	}
	return s
}

// forkEarly: in every other session the fresh Decoder is set up after the first
// call whatever its outcome (state that a successful call with options leaves in
// the handle), otherwise after the first failed call.
func (ss *sessState) forkEarly(st *plan.Step) bool {
	return hashName(ss.s.ID)%2 == 0
}

// scribbleSpare writes a marker into the spare capacity (len..cap) of every
// byte slice reachable from v, as a caller appending to it would.
func scribbleSpare(v reflect.Value, depth int) (n int) {
	if depth > 8 || !v.IsValid() {
		return 0
	}
	switch v.Kind() {
	case reflect.Ptr, reflect.Interface:
		if v.IsNil() {
			return 0
		}
		return scribbleSpare(v.Elem(), depth+1)
	case reflect.Struct:
		for i := 0; i < v.NumField(); i++ {
			n += scribbleSpare(v.Field(i), depth+1)
		}
	case reflect.Array:
		for i := 0; i < v.Len(); i++ {
			n += scribbleSpare(v.Index(i), depth+1)
		}
	case reflect.Map:
		it := v.MapRange()
		for it.Next() {
			n += scribbleSpare(it.Value(), depth+1)
		}
	case reflect.Slice:
		if v.IsNil() {
			return 0
		}
		if v.Type().Elem().Kind() == reflect.Uint8 {
			if b, ok := v.Interface().([]byte); ok || v.CanConvert(reflect.TypeOf([]byte(nil))) {
				if !ok {
					b = v.Convert(reflect.TypeOf([]byte(nil))).Bytes()
				}
				full := b[:cap(b)]
				for i := len(b); i < len(full); i++ {
					full[i] = 0xEE
					n++
				}
			}
			return n
		}
		for i := 0; i < v.Len(); i++ {
			n += scribbleSpare(v.Index(i), depth+1)
		}
	}
	return n
}

// ---------------------------------------------------------------- O3: kept values

func (ss *sessState) keepBytes(step int, what string, b []byte) {
	if ss.prop != "C12" && ss.prop != "C11" {
		return
	}
	ss.kept = append(ss.kept, keptItem{step: step, what: what, bytes: b, snap: string(b)})
}

func (ss *sessState) keepValue(step int, what string, p reflect.Value) {
	if ss.prop != "C12" && ss.prop != "C11" {
		return
	}
	ss.kept = append(ss.kept, keptItem{step: step, what: what, val: p, snap: DumpValue(p.Elem())})
}

func (ss *sessState) checkKept(now int) {
	for k := range ss.kept {
		it := &ss.kept[k]
		if it.snap == "\x00reported" {
			continue
		}
		var cur string
		if it.val.IsValid() {
			cur = DumpValue(it.val.Elem())
		} else {
			cur = string(it.bytes)
		}
		if cur != it.snap {
			op := ss.s.Steps[it.step].Op
			ss.viols = append(ss.viols, plan.Violation{Oracle: "aliasing", Where: fmt.Sprintf("session %s step %d (%s)", ss.s.ID, it.step, op),
				Sig:    "aliasing|" + op + "|changed_later",
				Detail: fmt.Sprintf("%s produced by step %d changed after step %d: was %s now %s", it.what, it.step, now, clipS(it.snap, 300), clipS(cur, 300))})
			it.snap = "\x00reported"
		}
	}
}

// ---------------------------------------------------------------- execution

func poolPolicy(name string) int {
	switch name {
	case "fifo":
		return verifsim.PoolFIFO
	case "miss":
		return verifsim.PoolMiss
	case "random":
		return verifsim.PoolRandom
	}
	return verifsim.PoolLIFO
}

func execSessions(p *plan.Plan, res *plan.Result) {
	smallMaps = p.Config.SmallMaps
	verifsim.SetPoolPolicy(poolPolicy(p.Config.PoolPolicy), p.Config.PoolSeed)
	res.Obs = map[string][]string{}
	sharedTable = map[string]*sharedHandle{}
	var states []*sessState
	for i := range p.Sessions {
		s := &p.Sessions[i]
		states = append(states, &sessState{idx: i, s: s, handles: map[string]interface{}{}, prop: p.Prop})
		for k := range s.Steps {
			st := &s.Steps[k]
			if st.Shared && (st.Op == "path_new" || st.Op == "query_new" || st.Op == "query_build" || st.Op == "val_new") {
				if sharedTable[st.H] == nil {
					obj, obs := createHandle(st)
					sharedTable[st.H] = &sharedHandle{obj: obj, obs: obs}
				}
			}
			if st.Shared && st.Op == "enc_new" && sharedTable[st.H] == nil {
				sharedTable[st.H] = &sharedHandle{obj: newEncHandle(st), obs: "enc_new"}
			}
		}
	}
	gc := func(n int) {
		Count("gc_event")
		for ; n > 0; n-- {
			runtime.GC()
			verifsim.PoolsGC()
		}
	}
	if p.Tasks {
		fns := make([]func(), len(states))
		for i, ss := range states {
			ss := ss
			fns[i] = func() {
				for ss.next < len(ss.s.Steps) {
					k := ss.next
					ss.next++
					ss.runStep(k)
				}
			}
		}
		cfg := verifsim.Config{Seed: p.Sched.Seed, Prob: p.Sched.Prob, MaxYields: p.Sched.MaxYields}
		for _, pt := range p.Sched.Points {
			cfg.Points = append(cfg.Points, verifsim.Point{At: pt.At, Site: pt.Site, Occ: pt.Occ, Task: pt.Task, To: pt.To})
		}
		if tf := os.Getenv("VERIF_TRACE"); tf != "" {
			verifsim.EnableTrace(8 << 20)
			defer func() {
				var sb strings.Builder
				for _, e := range verifsim.Trace() {
					fmt.Fprintf(&sb, "%d %d\n", e>>32, uint32(e))
				}
				os.WriteFile(tf, []byte(sb.String()), 0o644)
			}()
		}
		sr := verifsim.Run(cfg, fns)
		res.Yields = sr.Yields
		res.Switches = len(sr.Switches)
		res.Deadlock = sr.Deadlock
		res.LogHash = fmt.Sprintf("%016x", sr.LogHash)
		res.Interleave = res.LogHash
		for _, sw := range sr.Switches {
			if len(res.SwitchList) < 512 {
				res.SwitchList = append(res.SwitchList, plan.Point{At: sw.At, Site: sw.Site, Occ: sw.Occ, Task: sw.From, To: sw.To})
			}
		}
		if sr.Switches != nil {
			CountN("task_switch", int64(len(sr.Switches)))
		}
		for i := range states {
			if r := verifsim.TaskPanic(i); r != nil {
				states[i].obs = append(states[i].obs, "task-panic: "+normPanic(r))
			}
		}
	} else {
		for _, x := range p.Order {
			switch {
			case x == -1:
				gc(1)
			case x <= -2:
				gc(2)
			case x < len(states):
				ss := states[x]
				if ss.next < len(ss.s.Steps) {
					k := ss.next
					ss.next++
					ss.runStep(k)
					res.Steps++
				}
			}
		}
		for _, ss := range states {
			for ss.next < len(ss.s.Steps) {
				k := ss.next
				ss.next++
				ss.runStep(k)
				res.Steps++
			}
		}
	}
	for _, ss := range states {
		ss.checkKept(len(ss.s.Steps))
		res.Obs[ss.s.ID] = ss.obs
		res.Violations = append(res.Violations, ss.viols...)
		res.Cases += int64(len(ss.obs))
	}
	if p.Tasks {
		res.Steps = int64(res.Yields)
	}
	for _, v := range verifsim.IdentityViolations() {
		res.Violations = append(res.Violations, plan.Violation{Oracle: "identity", Where: "cache entry point", Sig: "identity|" + v.Kind, Detail: v.Text})
	}
	if ck, pr := verifsim.IdentityStats(); ck > 0 {
		CountN("cache_returns_checked", int64(ck))
		CountN("distinct_programs", int64(pr))
	}
	g, h, pu := verifsim.PoolStats()
	if g > 0 {
		CountN("pool_get", int64(g))
		CountN("pool_hit", int64(h))
		CountN("pool_put", int64(pu))
	}
}

var _ = context.Background

func sortStrings(a []string) {
	for i := 1; i < len(a); i++ {
		for j := i; j > 0 && a[j-1] > a[j]; j-- {
			a[j-1], a[j] = a[j], a[j-1]
		}
	}
}
