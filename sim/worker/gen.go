package worker

import (
	"fmt"
	"os"
	"strings"

	"vsim/plan"
)

// PlanCount tells the driver how many plans a tier of a property has.
func PlanCount(prop, tier string) int {
	q := tier == "quick"
	switch prop {
	case "C09":
		if q {
			return len(shortDocs) + len(snippets) + 260
		}
		return len(shortDocs) + len(snippets) + 6000
	case "C06":
		if q {
			return 700
		}
		return 12000
	case "C11":
		if q {
			return 900
		}
		return 10000
	case "C12":
		if q {
			return 700
		}
		return 10000
	case "C19":
		if q {
			return 700
		}
		return 8000
	case "C20":
		if q {
			return 800
		}
		return 8000
	case "C10":
		if q {
			return 500
		}
		return 6000
	case "C14":
		if q {
			return 240
		}
		return 1200
	}
	return 0
}

// Generate builds plan number index of (prop, seed). It is the only consumer
// of the plan's random stream; the plan is complete before execution starts.
func Generate(prop string, seed int64, index int, tier string) *plan.Plan {
	r := plan.Derive(uint64(seed), hashName(prop), uint64(index))
	p := &plan.Plan{Prop: prop, Seed: seed, Index: index}
	switch prop {
	case "C09":
		genC09(p, r, tier)
	case "C06":
		genC06(p, r, tier)
	case "C11":
		genC11(p, r, tier)
	case "C12":
		genC12(p, r, tier)
	case "C19":
		genC19(p, r, tier)
	case "C20":
		genC20(p, r, tier)
	case "C10":
		genC10(p, r, tier)
	case "C14":
		genC14(p, r, tier)
	default:
		fmt.Fprintln(os.Stderr, "no generator for", prop)
		os.Exit(2)
	}
	return p
}

func bs(s string) []byte { return []byte(s) }

// ---------------------------------------------------------------- C09

var refillBoundaries = []int{511, 512, 513, 1023, 1024, 1025, 2047, 2048}

func genC09(p *plan.Plan, r *plan.Rng, tier string) {
	p.Mode = "stream"
	quick := tier == "quick"
	i := p.Index
	switch {
	case i < len(shortDocs):
		doc := shortDocs[i]
		p.Note = "short document: every cut, pairs of cuts, piece sizes, a fault at every position"
		nt := 5
		if !quick {
			nt = 12
		}
		for ti, t := range typesForDoc(doc, r, nt) {
			base := plan.StreamFamily{Parts: [][]byte{bs(doc)}, T: t}
			add := func(fam, kind string) {
				f := base
				f.Family = fam
				f.ErrKind = kind
				p.Stream = append(p.Stream, f)
			}
			add("cuts1", "")
			add("sizes", "")
			if len(doc) <= 24 || (!quick && len(doc) <= 48) || ti == 0 {
				add("cuts2", "")
			}
			add("err1", "transient")
			add("err1", "permanent")
			add("err1", "err_with_data")
			add("err1", "early_eof")
			if ti < 2 {
				f := base
				f.Family = "cuts1"
				f.Scribble = true
				p.Stream = append(p.Stream, f)
				for _, fl := range []string{"usenumber", "disallowunknown"} {
					f := base
					f.Family = "cuts1"
					f.Flags = []string{fl}
					p.Stream = append(p.Stream, f)
				}
				// token / more scripts
				for _, ops := range [][]string{
					{"token", "token", "token", "token", "token", "token", "token", "token"},
					{"more", "decode", "more", "offset", "decode"},
					{"token", "more", "decode", "more", "token", "token"},
					{"decode", "buffered", "decode", "buffered"},
				} {
					f := base
					f.Family = "cuts1"
					f.Ops = ops
					p.Stream = append(p.Stream, f)
				}
				f2 := base
				f2.Family = "err1"
				f2.ErrKind = "transient"
				f2.Ops = []string{"token", "token", "token", "token", "token", "token"}
				p.Stream = append(p.Stream, f2)
			}
		}
	case i < len(shortDocs)+len(snippets):
		sn := snippets[i-len(shortDocs)]
		p.Note = "snippet aligned byte by byte with the refill boundaries of the stream buffer"
		bounds := refillBoundaries
		if quick {
			bounds = []int{511, 512, 1023, 1024}
		}
		// knob variants: the refill boundaries follow the rewritten buffer size
		// (a bias for reach, never part of an oracle)
		var kb int
		if i := strings.Index(Variant, "-b"); i >= 0 {
			fmt.Sscanf(Variant[i+2:], "%d", &kb)
		}
		if kb > 0 {
			bounds = []int{kb - 1, kb, 2*kb - 1, 2 * kb, 4*kb - 1, 4 * kb, 8*kb - 1}
		}
		types := typesForDoc(sn, r, 3)
		for _, B := range bounds {
			for j := 0; j <= len(sn); j++ {
				padLen := B - j
				if padLen < 0 {
					continue
				}
				for pk := 0; pk < 3; pk++ {
					t := types[(j+pk)%len(types)]
					var f plan.StreamFamily
					switch pk {
					case 0: // leading whitespace
						f = plan.StreamFamily{Pad: repeatByte(' ', padLen), Parts: [][]byte{bs(sn)}, T: t}
					case 1: // a first document in front: the snippet is the second value of the stream
						if padLen < 4 {
							continue
						}
						first := `"` + string(repeatByte('a', padLen-3)) + `"`
						f = plan.StreamFamily{Parts: [][]byte{bs(first), bs(sn)}, Seps: [][]byte{bs(" ")}, T: "Iface"}
					case 2: // inside an array after a long string element
						if padLen < 5 {
							continue
						}
						prefix := `["` + string(repeatByte('b', padLen-4)) + `",`
						f = plan.StreamFamily{Parts: [][]byte{bs(prefix + sn + `]`)}, T: "Iface"}
						if (j+B)%2 == 0 {
							f.T = "SliceIface"
						}
					}
					f.Family = "cutlist"
					f.Cuts = []int{B - j - 5 + r.Intn(11), B + 7}
					if r.Chance(1, 4) {
						f.Cuts = []int{3, B - j, B - j + 1}
					}
					p.Stream = append(p.Stream, f)
				}
			}
		}
	default:
		p.Note = "seeded: long and multi-document streams, biased cuts, mixed faults, op scripts"
		nf := 40
		for k := 0; k < nf; k++ {
			p.Stream = append(p.Stream, genRandomFamily(r, quick))
		}
	}
}

func repeatByte(b byte, n int) []byte {
	out := make([]byte, n)
	for i := range out {
		out[i] = b
	}
	if b == ' ' {
		// mixed whitespace
		for i := 7; i < n; i += 13 {
			out[i] = '\n'
		}
	}
	return out
}

var decodeTypes = []string{"Iface", "Odd", "Small", "Tagged", "Big", "Nested", "Recursive", "WithIface", "WithBytes", "StrTag", "Ptrs", "Floats", "Ints", "IntKeys",
	"SliceSmall", "MapStrSmall", "MapStrIface", "SliceIface", "WithUCB", "Embedded", "MutA", "SliceString", "MapStrSlice", "Wide", "CaseColl", "SliceSlice", "MapStrPtrSmall", "ArrSmall2"}

// genBigFamily: "however large the document": documents of 4 KiB .. 1 MiB
// (sizes around powers of two, where the stream buffer is doubled), delivered
// in pieces whose sizes cycle through a short list.
func genBigFamily(r *plan.Rng, quick bool) plan.StreamFamily {
	maxExp := 20
	if quick {
		maxExp = 17
	}
	L := 1<<uint(r.Range(12, maxExp+1)) + r.Range(-40, 41)
	if r.Chance(1, 3) {
		L = r.Range(4096, 1<<uint(maxExp))
	}
	frag := func(k int) string {
		switch k % 9 {
		case 0:
			return `\n`
		case 1:
			return `\u00e9`
		case 2:
			return "é"
		case 3:
			return `\ud83d\ude00`
		case 4:
			return "😀"
		case 5:
			return `\"`
		case 6:
			return `\\`
		default:
			return "abcdefghijklmnopqrstuvwxyz0123456789 "[k%37 : k%37+1]
		}
	}
	longString := func(n int, dense bool) []byte {
		out := make([]byte, 0, n+16)
		out = append(out, '"')
		step := r.Range(50, 3000)
		if dense {
			step = r.Range(1, 9)
		}
		for i := 0; len(out) < n; i++ {
			if i%step == 0 {
				out = append(out, frag(r.Intn(9))...)
			} else {
				out = append(out, byte('a'+i%26))
			}
		}
		return append(out, '"')
	}
	elem := func(i int) string {
		switch (i + r.Intn(3)) % 7 {
		case 0:
			return fmt.Sprintf("%d", i*7919)
		case 1:
			return fmt.Sprintf(`"s%d\t"`, i)
		case 2:
			return fmt.Sprintf(`{"A":%d,"B":"x%d"}`, i, i)
		case 3:
			return "null"
		case 4:
			return fmt.Sprintf("-%d.5e-%d", i, i%30)
		case 5:
			return "true"
		default:
			return fmt.Sprintf(`[%d,"é",false]`, i)
		}
	}
	f := plan.StreamFamily{T: "Iface", Family: "chunks"}
	var doc []byte
	switch r.Intn(7) {
	case 0: // one long string
		doc = longString(L, r.Chance(1, 4))
		if r.Bool() {
			f.T = "String"
		}
	case 1: // a long array
		doc = append(doc, '[')
		for i := 0; len(doc) < L; i++ {
			if i > 0 {
				doc = append(doc, ',')
			}
			doc = append(doc, elem(i)...)
		}
		doc = append(doc, ']')
		if r.Bool() {
			f.T = "SliceIface"
		}
	case 2: // an object with many keys
		doc = append(doc, '{')
		for i := 0; len(doc) < L; i++ {
			if i > 0 {
				doc = append(doc, ',')
			}
			doc = append(doc, fmt.Sprintf(`"k%d\u00e9":`, i)...)
			doc = append(doc, elem(i)...)
		}
		doc = append(doc, '}')
		if r.Bool() {
			f.T = "MapStrIface"
		}
	case 3: // a typed destination skipping a large unknown member, then a known one
		t := decodeTypes[1+r.Intn(len(decodeTypes)-1)]
		ti := lookupType(t)
		inner := stdDoc(ti, int64(r.U64()>>8))
		if len(inner) > 2 && inner[0] == '{' {
			f.T = t
			doc = append(doc, `{"unknown_member_`...)
			doc = append(doc, longString(L/2, false)[1:]...)
			if r.Bool() {
				doc = append(doc, `:[`...)
				for i := 0; len(doc) < L; i++ {
					if i > 0 {
						doc = append(doc, ',')
					}
					doc = append(doc, elem(i)...)
				}
				doc = append(doc, `]`...)
			} else {
				// an object with thousands of members that are themselves small
				// arrays and objects (skipObject / skipArray bookkeeping)
				doc = append(doc, `:{`...)
				for i := 0; len(doc) < L; i++ {
					if i > 0 {
						doc = append(doc, ',')
					}
					switch i % 3 {
					case 0:
						doc = append(doc, fmt.Sprintf(`"m%d":[[],[%d],[]]`, i, i)...)
					case 1:
						doc = append(doc, fmt.Sprintf(`"m%d":{"a":[],"b":{}}`, i)...)
					default:
						doc = append(doc, fmt.Sprintf(`"m%d":[[%d],{"x":[1,2]}]`, i, i)...)
					}
				}
				doc = append(doc, `}`...)
			}
			if len(inner) > 2 {
				doc = append(doc, ',')
			}
			doc = append(doc, inner[1:]...)
		} else {
			doc = longString(L, false)
		}
	case 4: // a long run of white space between tokens
		doc = append(doc, `[1,`...)
		doc = append(doc, repeatByte(' ', L)...)
		doc = append(doc, `{"a":`...)
		doc = append(doc, repeatByte(' ', L/3)...)
		doc = append(doc, `2}]`...)
	case 5: // many small documents in one stream
		f.Parts = nil
		tot := 0
		for i := 0; tot < L && i < 4000; i++ {
			e := elem(i)
			f.Parts = append(f.Parts, bs(e))
			f.Seps = append(f.Seps, bs(sepChoices[r.Intn(len(sepChoices))]))
			tot += len(e) + 1
		}
	default: // a long string member inside a struct-typed destination
		f.T = "WithIface"
		doc = append(doc, `{"Pre":1,"X":`...)
		doc = append(doc, longString(L, r.Chance(1, 4))...)
		doc = append(doc, `,"Post":"tail","Y":[1,2]}`...)
	}
	if doc != nil {
		f.Parts = [][]byte{doc}
		if r.Bool() {
			f.Seps = [][]byte{bs("\n")}
		}
	}
	if r.Chance(1, 4) {
		f.Pad = repeatByte(' ', r.Intn(700))
	}
	pow := func() int { return 1<<uint(r.Range(6, 21)) + r.Range(-1, 2) }
	switch r.Intn(6) {
	case 0:
		f.Cuts = []int{pow()}
	case 1:
		f.Cuts = []int{pow(), r.Range(1, 5)}
	case 2:
		f.Cuts = []int{r.Range(64, 100000), r.Range(64, 5000), pow()}
	case 3:
		f.Cuts = []int{511 + r.Intn(3)}
	case 4:
		f.Cuts = []int{L/2 + r.Range(-2, 3), 1, 1, 1}
	default:
		f.Cuts = []int{r.Range(200, 9000)}
	}
	if r.Chance(1, 8) {
		f.Flags = append(f.Flags, "usenumber")
	}
	return f
}

func genRandomFamily(r *plan.Rng, quick bool) plan.StreamFamily {
	if (quick && r.Chance(1, 40)) || (!quick && r.Chance(1, 16)) {
		return genBigFamily(r, quick)
	}
	nparts := 1
	if r.Chance(1, 2) {
		nparts = r.Range(2, 6)
	}
	t := decodeTypes[r.Intn(len(decodeTypes))]
	if r.Chance(1, 10) {
		t = fmt.Sprintf("G%04d", r.Intn(len(genTypes)))
	}
	ti := lookupType(t)
	f := plan.StreamFamily{T: t}
	for k := 0; k < nparts; k++ {
		doc := stdDoc(ti, int64(r.U64()>>8))
		if r.Chance(1, 8) {
			doc = escapeKey(doc, r)
		}
		if r.Chance(1, 10) {
			doc = dupKeys(doc, stdDoc(ti, int64(r.U64()>>8)))
		}
		if r.Chance(1, 5) {
			doc = mutate(doc, r)
		}
		f.Parts = append(f.Parts, doc)
		f.Seps = append(f.Seps, bs(sepChoices[r.Intn(len(sepChoices))]))
	}
	if r.Chance(1, 3) {
		f.Seps = f.Seps[:len(f.Seps)-1] // no trailing separator
	}
	if r.Chance(1, 3) {
		f.Pad = repeatByte(' ', r.Intn(600))
	}
	if r.Chance(1, 8) {
		f.Flags = append(f.Flags, "usenumber")
	}
	if r.Chance(1, 8) {
		f.Flags = append(f.Flags, "disallowunknown")
	}
	doc, _ := buildDoc(&f)
	n := len(doc)
	switch r.Intn(10) {
	case 0, 1, 2, 3:
		f.Family = "cutlist"
		ic := interestingCuts(doc)
		nc := r.Range(1, 6)
		for c := 0; c < nc; c++ {
			if len(ic) > 0 && r.Chance(3, 4) {
				f.Cuts = append(f.Cuts, ic[r.Intn(len(ic))])
			} else if n > 1 {
				f.Cuts = append(f.Cuts, 1+r.Intn(n-1))
			}
		}
		sortInts(f.Cuts)
	case 4:
		f.Family = "sizes"
	case 5, 6:
		// explicit delivery with mixed faults
		f.Family = "explicit"
		pos := 0
		for pos < n && len(f.Del) < 12 {
			k := r.Range(0, 1+n/3)
			d := plan.Deliver{N: k}
			switch r.Intn(14) {
			case 0:
				d.Err = "transient"
				if r.Bool() {
					d.N = 0
				}
			case 1:
				d.N = 0
			case 2:
				d.Scribble = true
			}
			f.Del = append(f.Del, d)
			pos += d.N
			if d.Err != "" {
				break
			}
		}
		if r.Chance(1, 6) {
			f.Del = append(f.Del, plan.Deliver{N: 0, Err: "permanent"})
		}
	case 7:
		if n <= 200 || !quick {
			f.Family = "err1"
			f.ErrKind = []string{"transient", "permanent", "err_with_data", "early_eof"}[r.Intn(4)]
		} else {
			f.Family = "sizes"
		}
	case 8:
		f.Family = "cutlist"
		f.Cuts = []int{1 + r.Intn(n+1)}
		ops := []string{"decode", "more", "token", "offset", "buffered", "decode", "decode_iface", "more"}
		for k := r.Range(2, 10); k > 0; k-- {
			f.Ops = append(f.Ops, ops[r.Intn(len(ops))])
		}
	default:
		if n <= 300 {
			f.Family = "cuts1"
		} else {
			f.Family = "sizes"
		}
	}
	return f
}

func sortInts(a []int) {
	for i := 1; i < len(a); i++ {
		for j := i; j > 0 && a[j-1] > a[j]; j-- {
			a[j-1], a[j] = a[j], a[j-1]
		}
	}
}
