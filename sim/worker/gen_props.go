package worker

import (
	"encoding/json"
	"fmt"
	"os"
	"reflect"
	"strings"

	"vsim/plan"
)

// interleave builds a random single-goroutine order for the sessions, with GC
// events mixed in.
func interleave(p *plan.Plan, r *plan.Rng, gcNum, gcDen int) {
	var slots []int
	for i, s := range p.Sessions {
		for range s.Steps {
			slots = append(slots, i)
		}
	}
	// shuffle slots; per-session step order is preserved by construction
	for i := len(slots) - 1; i > 0; i-- {
		j := r.Intn(i + 1)
		slots[i], slots[j] = slots[j], slots[i]
	}
	for _, s := range slots {
		if r.Chance(gcNum, gcDen) {
			p.Order = append(p.Order, -1-r.Intn(2))
		}
		p.Order = append(p.Order, s)
	}
}

// typePool: a plan reuses a few types so that warm caches and pooled state
// of one call meet the next call on the same type.
func typePool(r *plan.Rng, list []string, n int) []string {
	out := make([]string, n)
	for i := range out {
		out[i] = pickType(r, list)
	}
	return out
}

func addHandleGroups(p *plan.Plan, r *plan.Rng, next *int, paths, queries, encoders int) {
	id := func(prefix string) string { *next++; return fmt.Sprintf("%s%d", prefix, *next) }
	for g := 0; g < paths; g++ {
		text := randPathText(r)
		h := fmt.Sprintf("P%d", g)
		n := r.Range(2, 5)
		for k := 0; k < n; k++ {
			s := plan.Session{ID: id("p")}
			s.Steps = append(s.Steps, plan.Step{Op: "path_new", H: h, Shared: true, S1: text})
			s.Steps = append(s.Steps, pathStep(r, h, true, r.Chance(1, 3)))
			if r.Chance(1, 3) {
				s.Steps = append(s.Steps, pathStep(r, h, true, r.Chance(1, 3)))
			}
			p.Sessions = append(p.Sessions, s)
		}
	}
	for g := 0; g < queries; g++ {
		qt := queryTypes[r.Intn(len(queryTypes))]
		if r.Chance(1, 3) {
			// types whose fields are context-aware marshalers that use their sub-query
			for _, c := range queryTypes {
				if (c.T == "WithQ" || c.T == "WithCB") && r.Bool() {
					qt = c
				}
			}
		}
		nq := r.Range(1, 3)
		for qi := 0; qi < nq; qi++ {
			text := qt.Queries[r.Intn(len(qt.Queries))]
			h := fmt.Sprintf("Q%d_%d", g, qi)
			op := "query_new"
			if r.Chance(1, 3) {
				op = "query_build"
			}
			for k := r.Range(1, 3); k > 0; k-- {
				s := plan.Session{ID: id("q")}
				s.Steps = append(s.Steps, plan.Step{Op: op, H: h, Shared: true, S1: text})
				s.Steps = append(s.Steps, queryMarshalStep(r, qt, h, true))
				if r.Chance(1, 4) {
					s.Steps = append(s.Steps, plan.Step{Op: "query_string", H: h, Shared: true})
				}
				p.Sessions = append(p.Sessions, s)
			}
		}
		// the same type without a query, and with a context without a query
		p.Sessions = append(p.Sessions, one(id("u"), plan.Step{Op: "marshal", T: qt.T, V: valueSeed(r, 0, 1)}))
		p.Sessions = append(p.Sessions, one(id("u"), plan.Step{Op: "marshal_ctx", T: qt.T, V: valueSeed(r, 0, 1), S1: "noquery"}))
		if r.Chance(1, 2) {
			p.Sessions = append(p.Sessions, one(id("u"), plan.Step{Op: "marshal_indent", T: qt.T, V: valueSeed(r, 0, 1), S1: "", S2: " "}))
		}
	}
	_ = encoders
}

// ---------------------------------------------------------------- C11

func genC11(p *plan.Plan, r *plan.Rng, tier string) {
	p.Mode = "sessions"
	p.Note = "single goroutine; sessions interleaved at step granularity; failing steps, option switches, GC events; every session is compared with its cold run"
	n := r.Range(3, 14)
	encPool := typePool(r, encodeTypes, 4)
	decPool := typePool(r, decodeAllTypes, 3)
	next := 0
	id := func(prefix string) string { next++; return fmt.Sprintf("%s%d", prefix, next) }
	for i := 0; i < n; i++ {
		switch k := r.Intn(20); {
		case k < 9:
			st := randEncodeStep(r, true)
			if r.Chance(2, 3) && !strings.HasPrefix(st.T, "Unsupported") {
				st.T = encPool[r.Intn(len(encPool))]
			}
			p.Sessions = append(p.Sessions, one(id("e"), st))
		case k < 14:
			st := randDecodeStep(r, true)
			if r.Chance(2, 3) {
				st.T = decPool[r.Intn(len(decPool))]
				st.Doc = docFor(r, st.T, 1, 4)
			}
			p.Sessions = append(p.Sessions, one(id("d"), st))
		case k < 16:
			p.Sessions = append(p.Sessions, one(id("u"), randUtilStep(r)))
		case k < 18:
			p.Sessions = append(p.Sessions, encoderSession(r, id("E"), true))
		default:
			p.Sessions = append(p.Sessions, decoderSession(r, id("D"), true))
		}
	}
	switch r.Intn(4) {
	case 0:
		addHandleGroups(p, r, &next, 1, 0, 0)
	case 1:
		addHandleGroups(p, r, &next, 0, 1, 0)
	case 2:
		addHandleGroups(p, r, &next, 1, 1, 0)
	}
	// one Encoder used by several sessions, some of whose Encode calls fail
	// (marshaler errors and panics, cyclic and unsupported values): an Encoder
	// reused after an error behaves like a fresh one
	if r.Chance(1, 4) {
		mk := plan.Step{Op: "enc_new", H: "ENC", Shared: true}
		if r.Chance(1, 2) {
			mk.S1 = prefixes[r.Intn(len(prefixes))]
			mk.S2 = indents[1+r.Intn(len(indents)-1)]
		}
		if r.Chance(1, 3) {
			mk.Opts = []string{"nohtml"}
		}
		for k := r.Range(2, 5); k > 0; k-- {
			st := plan.Step{Op: "enc_encode", H: "ENC", Shared: true, T: pickType(r, encodeTypes), V: valueSeed(r, 1, 3)}
			if r.Chance(1, 8) {
				st.Opts = append(st.Opts, "cyclic")
			}
			if r.Chance(1, 4) {
				st.Op = "enc_encode_ctx"
				st.S1 = "shared-enc"
			}
			p.Sessions = append(p.Sessions, plan.Session{ID: id("S"), Steps: []plan.Step{mk, st}})
		}
	}
	// documents of one shape with different content into fresh destinations of
	// one type: long arrays first, then the same arrays with null elements (a
	// null leaves a slot of the decoder's scratch space as the last call left it)
	if r.Chance(1, 3) {
		dt := pickType(r, decodeAllTypes)
		if r.Bool() {
			dt = []string{"SliceInt", "Ints", "Floats", "SliceSlice", "MapStrSlice", "SliceIface", "Big", "Wide", "SliceSmall", "ArrSmall2", "Nested"}[r.Intn(11)]
			if typeMap[dt] == nil {
				dt = "Big"
			}
		}
		ti := lookupType(dt)
		base := reshape(stdDoc(ti, int64(r.U64()>>8)), r, true, false)
		ops := []string{"unmarshal", "unmarshal", "unmarshal_noescape", "unmarshal_ctx"}
		for k := r.Range(2, 4); k > 0; k-- {
			doc := base
			if k%2 == 0 || r.Bool() {
				doc = reshape(base, r, false, true)
			}
			st := plan.Step{Op: ops[r.Intn(len(ops))], T: dt, Doc: doc}
			if r.Chance(1, 4) {
				// the same through a Decoder
				p.Sessions = append(p.Sessions, plan.Session{ID: id("n"), Steps: []plan.Step{
					{Op: "dec_new", H: "nd", Reader: &plan.Reader{Data: doc}},
					{Op: "dec_decode", H: "nd", T: dt}}})
				continue
			}
			p.Sessions = append(p.Sessions, one(id("n"), st))
		}
	}
	// a compile that fails half-way (an unsupported member below supported
	// structs), then first or later uses of those structs, of the failing type
	// again and of types built from it
	if r.Chance(1, 4) {
		bad := []string{"Unsupported2", "Unsupported3", "Unsupported4", "Unsupported"}[r.Intn(4)]
		rel := []string{"Small", "Nested", "Wide", "Big", "Leaf", "Tagged", "SliceSmall", "MapStrSmall"}
		for k := r.Range(3, 7); k > 0; k-- {
			t := rel[r.Intn(len(rel))]
			if r.Chance(1, 3) {
				t = bad
			}
			if r.Bool() {
				st := plan.Step{Op: []string{"marshal", "marshal_indent", "marshal_ctx"}[r.Intn(3)], T: t, V: valueSeed(r, 0, 1), S2: " "}
				if r.Chance(1, 3) {
					st.Opts = []string{"ptr"}
				}
				p.Sessions = append(p.Sessions, one(id("c"), st))
			} else {
				p.Sessions = append(p.Sessions, one(id("c"), plan.Step{Op: "unmarshal", T: t, Doc: []byte(`{"S":{"A":1},"A":2,"B":"x","N":{},"L":null,"M":{}}`)}))
			}
		}
	}
	// a stream that ends inside an array (right behind an element, or behind a
	// comma), then nested arrays of the same element type decoded elsewhere
	if r.Chance(1, 4) {
		trunc := []string{`[1,[2,3],4`, `[1,2`, `[[1,2],[3`, `[[[1]],[[2`, `[{"Children":[{"Children":[`, `[1,`, `[[1,2],`}
		nested := []string{`[[3,[3,4]],[7,[7,8]]]`, `[[[1,2],[3]],[[4]],[]]`, `[[1,[2,[3,[4]]]],[5]]`}
		for k := r.Range(1, 3); k > 0; k-- {
			t := []string{"Iface", "SliceIface", "SliceSlice", "Iface"}[r.Intn(4)]
			doc := trunc[r.Intn(len(trunc))]
			s := plan.Session{ID: id("t")}
			rd := &plan.Reader{Data: []byte(doc)}
			if r.Bool() {
				rd.Del = []plan.Deliver{{N: len(doc) - r.Intn(2)}}
			}
			s.Steps = append(s.Steps, plan.Step{Op: "dec_new", H: "td", Reader: rd}, plan.Step{Op: "dec_decode", H: "td", T: t})
			p.Sessions = append(p.Sessions, s)
		}
		for k := r.Range(1, 3); k > 0; k-- {
			t := []string{"Iface", "SliceIface", "Iface"}[r.Intn(3)]
			doc := nested[r.Intn(len(nested))]
			if r.Bool() {
				p.Sessions = append(p.Sessions, one(id("t"), plan.Step{Op: "unmarshal", T: t, Doc: []byte(doc)}))
			} else {
				p.Sessions = append(p.Sessions, plan.Session{ID: id("t"), Steps: []plan.Step{
					{Op: "dec_new", H: "nd", Reader: &plan.Reader{Data: []byte(doc)}}, {Op: "dec_decode", H: "nd", T: t}}})
			}
		}
		if r.Bool() {
			ti := lookupType("Recursive")
			p.Sessions = append(p.Sessions, one(id("t"), plan.Step{Op: "unmarshal", T: "Recursive", Doc: reshape(stdDoc(ti, int64(r.U64()>>8)), r, true, false)}))
		}
	}
	// the same long object graph encoded again after an encode of it failed
	// half-way (a value handle shared by two sessions)
	if r.Chance(1, 5) {
		depth := []int{40, 900, 1100, 1500}[r.Intn(4)]
		mk := plan.Step{Op: "val_new", H: "V0", Shared: true, N: depth, V: 1}
		a := plan.Session{ID: id("v"), Steps: []plan.Step{mk, {Op: "val_marshal", H: "V0", Shared: true, S1: "CBERR"}}}
		b := plan.Session{ID: id("v"), Steps: []plan.Step{mk, {Op: "val_marshal", H: "V0", Shared: true, S1: "fine"}}}
		if r.Bool() {
			b.Steps = append(b.Steps, plan.Step{Op: "val_marshal", H: "V0", Shared: true, S1: "fine", Opts: []string{"nohtml"}})
		}
		p.Sessions = append(p.Sessions, a, b)
	}
	// option-leak probes: a call with an option, and calls of the same family
	// without it on arguments for which the option would make a difference
	for k := r.Range(1, 2); k > 0; k-- {
		if r.Bool() {
			dt := []string{"Small", "Tagged", "MapStrInt", "MapStrIface", "Nested", "CaseColl", "Wide", "WithNE", "WithUCB"}[r.Intn(9)]
			a := plan.Step{Op: "unmarshal", T: pickType(r, decodeAllTypes), Opts: []string{"firstwin"}}
			a.Doc = docFor(r, a.T, 0, 1)
			if r.Chance(1, 3) {
				a.Op = "unmarshal_ctx"
				a.S1 = "leak-ctx"
			}
			p.Sessions = append(p.Sessions, one(id("o"), a))
			ti := lookupType(dt)
			dup := dupKeys(stdDoc(ti, int64(r.U64()>>8)), stdDoc(ti, int64(r.U64()>>8)))
			for _, op := range []string{"unmarshal", "unmarshal_ctx", "unmarshal_noescape"} {
				if r.Chance(2, 3) {
					st := plan.Step{Op: op, T: dt, Doc: dup, S1: "probe"}
					if dt == "WithNE" {
						st.Opts = []string{"prefill"}
						st.V = valueSeed(r, 0, 1)
					}
					p.Sessions = append(p.Sessions, one(id("o"), st))
				}
			}
			if r.Chance(1, 2) {
				s := plan.Session{ID: id("O")}
				s.Steps = append(s.Steps, plan.Step{Op: "dec_new", H: "d", Reader: &plan.Reader{Data: append(append([]byte(nil), dup...), '\n')}}, plan.Step{Op: "dec_decode", H: "d", T: dt})
				p.Sessions = append(p.Sessions, s)
			}
		} else {
			et := []string{"MapStrString", "MapStrInt", "MapStrIface", "Tagged", "String", "SliceString", "Nested", "WithCB", "MapStrSmall"}[r.Intn(9)]
			opt := [][]string{{"unordered"}, {"nohtml"}, {"noutf8"}, {"color_default"}, {"color_custom"}, {"debug"}, {"debugdot"}, {"unordered", "nohtml", "color_custom"}}[r.Intn(8)]
			a := plan.Step{Op: []string{"marshal", "marshal_indent", "marshal_ctx"}[r.Intn(3)], T: pickType(r, encodeTypes), V: valueSeed(r, 0, 1), Opts: opt, S1: "", S2: " "}
			if a.Op == "marshal_ctx" {
				a.S1 = "leak-ctx"
			}
			p.Sessions = append(p.Sessions, one(id("o"), a))
			for _, op := range []string{"marshal", "marshal_indent", "marshal_ctx", "marshal_noescape"} {
				if r.Chance(2, 3) {
					p.Sessions = append(p.Sessions, one(id("o"), plan.Step{Op: op, T: et, V: valueSeed(r, 0, 1), S2: "\t"}))
				}
			}
			if r.Chance(1, 2) {
				p.Sessions = append(p.Sessions, encoderSession(r, id("O"), false))
			}
		}
	}
	interleave(p, r, 1, 12)
	p.Config.Faults = []string{"cb_error", "cb_panic", "cb_reenter", "cb_gc", "cb_stackgrow", "gc_event", "writer_err", "reader faults", "syntax errors", "option switches"}
}

// ---------------------------------------------------------------- C12

var aliasTypes = []string{"String", "Bytes", "Raw", "Number", "Iface", "WithBytes", "WithUCB", "UJ", "UT", "SliceString", "MapStrString", "MapStrIface", "Small", "Tagged", "Nested",
	"SliceUJ", "MapStrUJ", "SliceIface", "PtrPtrString", "WithIface", "Big", "MT", "MapMTInt"}

func genC12(p *plan.Plan, r *plan.Rng, tier string) {
	p.Mode = "sessions"
	p.Note = "aliasing probes: inputs mutated after the call, returned slices mutated, earlier results kept while pools and stream windows are recycled"
	n := r.Range(4, 12)
	next := 0
	id := func(prefix string) string { next++; return fmt.Sprintf("%s%d", prefix, next) }
	for i := 0; i < n; i++ {
		switch k := r.Intn(20); {
		case k < 8:
			st := randDecodeStep(r, false)
			st.T = aliasTypes[r.Intn(len(aliasTypes))]
			st.Doc = docFor(r, st.T, 0, 1)
			if r.Chance(2, 3) {
				st.Probe = "mutate_input"
			}
			if r.Chance(1, 4) {
				st.Probe = "scribble_spare"
				st.T = []string{"WithBytes", "Bytes", "WithBytes", "Raw", "WithIface", "WithBytes"}[r.Intn(6)]
				if typeMap[st.T] == nil {
					st.T = "WithBytes"
				}
				st.Doc = docFor(r, st.T, 0, 1)
			}
			p.Sessions = append(p.Sessions, one(id("d"), st))
		case k == 8 || k == 9:
			// results of Extract / Path.Unmarshal kept while other calls recycle
			// the pooled buffers
			s := plan.Session{ID: id("P")}
			s.Steps = append(s.Steps, plan.Step{Op: "path_new", H: "p", S1: pathTexts[r.Intn(len(pathTexts))]})
			for k := r.Range(1, 3); k > 0; k-- {
				s.Steps = append(s.Steps, pathStep(r, "p", false, false))
			}
			p.Sessions = append(p.Sessions, s)
		case k < 15:
			st := randEncodeStep(r, false)
			if r.Chance(1, 2) {
				st.Probe = "mutate_output"
			}
			if r.Chance(1, 5) {
				// the same tiny value twice, the first result overwritten
				tv := int64(r.Intn(12))
				st = plan.Step{Op: "marshal", T: "Iface", V: tv, Opts: []string{"tiny"}, Probe: "mutate_output"}
				p.Sessions = append(p.Sessions, one(id("e"), st))
				st.Probe = ""
				if r.Bool() {
					st.Op = "marshal_noescape"
				}
			}
			p.Sessions = append(p.Sessions, one(id("e"), st))
		case k < 18:
			// a long-lived decoder: many values over refills and doublings
			t := aliasTypes[r.Intn(len(aliasTypes))]
			s := plan.Session{ID: id("D")}
			nd := r.Range(3, 9)
			rd := randReader(r, t, nd, false)
			s.Steps = append(s.Steps, plan.Step{Op: "dec_new", H: "d", Reader: rd})
			for k := 0; k < nd+1; k++ {
				s.Steps = append(s.Steps, plan.Step{Op: "dec_decode", H: "d", T: t})
			}
			p.Sessions = append(p.Sessions, s)
		default:
			p.Sessions = append(p.Sessions, encoderSession(r, id("E"), false))
		}
	}
	interleave(p, r, 1, 10)
	p.Config.Faults = []string{"mutate_input_after", "mutate_output_after", "gc_event", "split", "short_read"}
}

// ---------------------------------------------------------------- C19

func genC19(p *plan.Plan, r *plan.Rng, tier string) {
	p.Mode = "sessions"
	p.Note = "several queries and the unfiltered encoding hit the same types in a seeded order; queries are shared handles"
	next := 0
	addHandleGroups(p, r, &next, 0, r.Range(1, 3), 0)
	// short-lived queries: built, used once, forgotten and collected; the next
	// query (another selection on the same type) may live at the same address
	if r.Chance(1, 2) {
		qt := queryTypes[r.Intn(len(queryTypes))]
		for k := r.Range(4, 10); k > 0; k-- {
			next++
			h := "eq"
			s := plan.Session{ID: fmt.Sprintf("e%d", next)}
			s.Steps = append(s.Steps, plan.Step{Op: "query_new", H: h, S1: qt.Queries[r.Intn(len(qt.Queries))]})
			s.Steps = append(s.Steps, queryMarshalStep(r, qt, h, false))
			s.Steps = append(s.Steps, plan.Step{Op: "drop", H: h}, plan.Step{Op: "gc", N: 2})
			p.Sessions = append(p.Sessions, s)
		}
	}
	// unrelated traffic in between
	for k := r.Range(0, 4); k > 0; k-- {
		next++
		p.Sessions = append(p.Sessions, one(fmt.Sprintf("x%d", next), randEncodeStep(r, true)))
	}
	interleave(p, r, 1, 15)
	if Variant == "inst-race" || Variant == "inst" {
		asTasks(p, r)
	}
}

// ---------------------------------------------------------------- C20

func genC20(p *plan.Plan, r *plan.Rng, tier string) {
	p.Mode = "sessions"
	p.Note = "one Path shared by several sessions; failing and succeeding documents interleaved"
	next := 0
	addHandleGroups(p, r, &next, r.Range(1, 3), 0, 0)
	if r.Chance(1, 3) {
		next++
		p.Sessions = append(p.Sessions, one(fmt.Sprintf("x%d", next), randDecodeStep(r, true)))
	}
	next++
	p.Sessions = append(p.Sessions, pathSyntaxSession(r, fmt.Sprintf("S%d", next), 12))
	interleave(p, r, 1, 20)
	if Variant == "inst-race" || Variant == "inst" {
		asTasks(p, r)
	}
}

// hasWideObject: does the text contain an object with more than one member
// (or is it not parseable, in which case nothing is encoded anyway: false).
func hasWideObject(doc []byte) bool {
	var v interface{}
	if json.Unmarshal(doc, &v) != nil {
		return false
	}
	var walk func(x interface{}) bool
	walk = func(x interface{}) bool {
		switch t := x.(type) {
		case map[string]interface{}:
			if len(t) > 1 {
				return true
			}
			for _, e := range t {
				if walk(e) {
					return true
				}
			}
		case []interface{}:
			for _, e := range t {
				if walk(e) {
					return true
				}
			}
		}
		return false
	}
	return walk(v)
}

// asTasks turns a sessions plan into a concurrent one: every session is a
// task; the schedule is drawn from the plan's random stream.
func asTasks(p *plan.Plan, r *plan.Rng) {
	p.Tasks = true
	p.Config.SmallMaps = true
	// go-json walks a Go map in Go's (random) iteration order before it sorts
	// the entries: a map with more than one entry makes the order in which a
	// task passes yield sites differ from run to run. Scheduled plans therefore
	// use maps with at most one entry (SmallMaps), and big values are slices.
	for si := range p.Sessions {
		for k := range p.Sessions[si].Steps {
			st := &p.Sessions[si].Steps[k]
			if hasOpt(st, "big") && strings.HasPrefix(st.T, "Map") {
				st.T = "SliceInt"
			}
			// HTMLEscape decodes into interface{} and encodes again: objects
			// become Go maps. With more than one member somewhere the step is
			// turned into Compact (a scanner, no maps).
			if st.Op == "htmlescape" && hasWideObject(st.Doc) {
				st.Op = "compact"
			}
		}
	}
	p.Order = nil
	if len(p.Sessions) > 26 {
		p.Sessions = p.Sessions[:26]
	}
	p.Sched.Seed = r.U64()
	p.Sched.MaxYields = 4000000
	switch r.Intn(4) {
	case 0: // rare switches anywhere
		p.Sched.Prob = [4]uint32{20000, 2000, 200, 100}
	case 1: // frequent at synchronisation sites
		p.Sched.Prob = [4]uint32{30000, 16000, 400, 100}
	case 2: // very frequent
		p.Sched.Prob = [4]uint32{40000, 30000, 4000, 2000}
	default: // seams only
		p.Sched.Prob = [4]uint32{32768, 0, 0, 0}
	}
	// explicit site-based change points (PCT-like): the n-th passage of a
	// class-A site (locks, atomics, pools, mutable package variables) by any
	// task hands control to a chosen task
	if sites := classASites(); len(sites) > 0 {
		for k := r.Intn(7); k > 0; k-- {
			p.Sched.Points = append(p.Sched.Points, plan.Point{Site: sites[r.Intn(len(sites))], Occ: uint32(r.Range(1, 4)), Task: -1, To: r.Intn(len(p.Sessions))})
		}
	}
}

// ---------------------------------------------------------------- C10

func genC10(p *plan.Plan, r *plan.Rng, tier string) {
	p.Mode = "sessions"
	p.Note = "2..8 tasks (thorough: up to 24) under the seeded scheduler; cold caches (never-used generated and reflect types); shared FieldQuery / Path"
	n := r.Range(2, 8)
	if tier != "quick" && r.Chance(1, 4) {
		n = r.Range(9, 24)
	}
	next := 0
	id := func(prefix string) string { next++; return fmt.Sprintf("%s%d", prefix, next) }
	// types: a few shared by all tasks (first use races), mostly generated ones
	shared := []string{fmt.Sprintf("G%04d", r.Intn(len(genTypes))), fmt.Sprintf("G%04d", r.Intn(len(genTypes))), pickType(r, encodeTypes),
		reflectTypeNames[r.Intn(len(reflectTypeNames))], reflectTypeNames[r.Intn(len(reflectTypeNames))]}
	if r.Chance(1, 3) {
		// callback-bearing types: the callbacks are scheduling seams, so calls
		// on the same type overlap while user code holds what the library lent it
		cb := []string{"UJ", "WithUCB", "SliceUJ", "MapStrUJ", "UT", "MT", "WithCB", "MJ", "SliceMJ", "MapMTInt", "UJC", "MJC", "WithQ"}
		shared = []string{cb[r.Intn(len(cb))], cb[r.Intn(len(cb))], shared[0]}
	}
	for i := 0; i < n; i++ {
		s := plan.Session{ID: id("t")}
		for k := r.Range(1, 5); k > 0; k-- {
			var st plan.Step
			switch r.Intn(10) {
			case 0, 1, 2, 3:
				st = randEncodeStep(r, r.Chance(1, 4))
				if r.Chance(2, 3) && !strings.HasPrefix(st.T, "Unsupported") {
					st.T = shared[r.Intn(len(shared))]
				}
				// Debug writes to a per-step writer; fine. Colour schemes are read-only.
			case 4, 5, 6:
				st = randDecodeStep(r, r.Chance(1, 4))
				if r.Chance(2, 3) {
					st.T = shared[r.Intn(len(shared))]
					st.Doc = docFor(r, st.T, 1, 5)
				}
			case 7:
				st = randUtilStep(r)
				if r.Bool() {
					st = ptrPrefillStep(r)
				}
			default:
				st = randEncodeStep(r, false)
				st.T = shared[r.Intn(len(shared))]
			}
			s.Steps = append(s.Steps, st)
		}
		p.Sessions = append(p.Sessions, s)
	}
	switch r.Intn(5) {
	case 0:
		p.Sessions = append(p.Sessions, encoderSession(r, id("E"), true), decoderSession(r, id("D"), true))
	case 1:
		addHandleGroups(p, r, &next, 1, 0, 0)
	case 2:
		addHandleGroups(p, r, &next, 0, 1, 0)
	}
	asTasks(p, r)
	if r.Chance(1, 2) {
		p.Config.PoolPolicy = []string{"lifo", "fifo", "miss", "random"}[r.Intn(4)]
		p.Config.PoolSeed = r.U64()
	}
}

// ---------------------------------------------------------------- C06

func bomb(kind int, d int) []byte {
	switch kind {
	case 0:
		return repeatByte('[', d)
	case 1:
		var b []byte
		for i := 0; i < d; i++ {
			b = append(b, `{"a":`...)
		}
		return b
	case 2:
		return append(repeatByte('[', d), repeatByte(']', d)...)
	default:
		var b []byte
		for i := 0; i < d; i++ {
			b = append(b, `{"a":`...)
		}
		b = append(b, '1')
		return append(b, repeatByte('}', d)...)
	}
}

func genC06(p *plan.Plan, r *plan.Rng, tier string) {
	p.Mode = "sessions"
	p.Note = "decoding and utility entry points on valid texts, prefixes, mutants, random bytes and nesting bombs, through failing readers; oracle: every call returns"
	next := 0
	id := func(prefix string) string { next++; return fmt.Sprintf("%s%d", prefix, next) }
	idx := p.Index
	depths := []int{1000, 10000, 10001, 100000, 1000000, 10000000}
	nb := len(depths) * 4
	if idx < nb {
		// nesting bombs into every entry point
		d := depths[idx/4]
		bm := &plan.Bomb{Kind: idx % 4, Depth: d}
		p.Note = fmt.Sprintf("nesting bomb kind %d depth %d into every decoding and utility entry point", idx%4, d)
		for _, t := range []string{"Iface", "Small", "SliceIface", "MapStrIface", "Raw", "UJ", "Recursive", "SliceSlice", "Nested"} {
			p.Sessions = append(p.Sessions, one(id("b"), plan.Step{Op: "unmarshal", T: t, Bomb: bm}))
		}
		p.Sessions = append(p.Sessions, one(id("b"), plan.Step{Op: "valid", Bomb: bm}))
		p.Sessions = append(p.Sessions, one(id("b"), plan.Step{Op: "compact", Bomb: bm}))
		p.Sessions = append(p.Sessions, one(id("b"), plan.Step{Op: "indent", Bomb: bm, S2: " "}))
		p.Sessions = append(p.Sessions, one(id("b"), plan.Step{Op: "htmlescape", Bomb: bm}))
		for _, t := range []string{"Iface", "Small", "Raw", "SliceIface", "UJ"} {
			s := plan.Session{ID: id("B")}
			s.Steps = append(s.Steps, plan.Step{Op: "dec_new", H: "d", Reader: &plan.Reader{Bomb: bm, Del: []plan.Deliver{{N: 7}, {N: 505}}}})
			s.Steps = append(s.Steps, plan.Step{Op: "dec_decode", H: "d", T: t}, plan.Step{Op: "dec_token", H: "d"}, plan.Step{Op: "dec_more", H: "d"})
			p.Sessions = append(p.Sessions, s)
		}
		for _, pt := range []string{"$.a.a.a", "$..a", "$..x", "$[0][0][0]", "$[*][*]", "$..a[0]"} {
			s := plan.Session{ID: id("P")}
			s.Steps = append(s.Steps, plan.Step{Op: "path_new", H: "p", S1: pt}, plan.Step{Op: "path_extract", H: "p", Bomb: bm}, plan.Step{Op: "path_unmarshal", H: "p", Bomb: bm, T: "Iface"})
			p.Sessions = append(p.Sessions, s)
		}
		return
	}
	if idx%5 == 4 {
		// the stream decoder under enumerated chunkings: reuse C09's families
		// (the worker reports only panics and non-termination for C06)
		q := &plan.Plan{Index: r.Intn(len(shortDocs) + len(snippets) + 200)}
		genC09(q, r, "quick")
		p.Mode = "stream"
		p.Stream = q.Stream
		p.Note = "stream families of C09 plan " + fmt.Sprint(q.Index) + " (oracles: no panic, termination)"
		return
	}
	n := r.Range(4, 14)
	for i := 0; i < n; i++ {
		switch k := r.Intn(20); {
		case k < 8:
			st := randDecodeStep(r, true)
			switch r.Intn(8) {
			case 0: // every prefix is reached over the plans: pick one
				if len(st.Doc) > 0 {
					st.Doc = st.Doc[:r.Intn(len(st.Doc))]
				}
			case 1: // raw random bytes
				b := make([]byte, r.Range(1, 64))
				alpha := []byte(`{}[]",:ģ456789-+.eEtruefalsn ` + "\x00\x01\xff\xe3\x81")
				for j := range b {
					b[j] = alpha[r.Intn(len(alpha))]
				}
				st.Doc = b
			case 2:
				st.Doc = mutate(mutate(st.Doc, r), r)
			case 3: // a run of ill-formed UTF-8 inside one string
				st.Doc = badUTF8(st.Doc, r)
				if r.Chance(1, 3) {
					st.T = []string{"UT", "MapMTInt", "WithUCB", "MT", "UJ", "String", "Bytes", "Iface"}[r.Intn(8)]
					if typeMap[st.T] == nil {
						st.T = "UT"
					}
					if r.Bool() {
						st.Doc = badUTF8([]byte(`"x"`), r)
					}
				}
			case 4: // the text ends where a buffer ends
				if r.Chance(1, 2) {
					st.Doc = alignedText(r)
				}
			}
			p.Sessions = append(p.Sessions, one(id("d"), st))
		case k == 8:
			p.Sessions = append(p.Sessions, one(id("i"), ptrPrefillStep(r)))
		case k < 11:
			st := randUtilStep(r)
			if r.Chance(1, 2) && len(st.Doc) > 0 {
				st.Doc = st.Doc[:r.Intn(len(st.Doc))]
			}
			switch r.Intn(6) {
			case 0, 1:
				st.Doc = alignedText(r)
			case 2:
				st.Doc = badUTF8(st.Doc, r)
			}
			p.Sessions = append(p.Sessions, one(id("u"), st))
		case k < 16:
			p.Sessions = append(p.Sessions, decoderSession(r, id("D"), true))
		case k == 16:
			p.Sessions = append(p.Sessions, pathSyntaxSession(r, id("S"), 25))
		default:
			s := plan.Session{ID: id("P")}
			s.Steps = append(s.Steps, plan.Step{Op: "path_new", H: "p", S1: randPathText(r)})
			for k := r.Range(1, 3); k > 0; k-- {
				s.Steps = append(s.Steps, pathStep(r, "p", false, r.Chance(1, 2)))
			}
			p.Sessions = append(p.Sessions, s)
		}
	}
	interleave(p, r, 1, 20)
}

// ---------------------------------------------------------------- C14

func genC14(p *plan.Plan, r *plan.Rng, tier string) {
	quick := tier == "quick"
	i := p.Index
	nsweep := 12
	if !quick {
		nsweep = 48
	}
	if Variant == "plain" && i >= nsweep && i%4 == 3 {
		// population independence: a batch of this binary's types, by name, here
		// and in the binary with the other population
		p.Mode = "typesweep"
		p.Note = "a batch of types processed in two binaries with different type populations (plain, plain-pop): same observations"
		names := sweepNames()
		nb := (PlanCount("C14", tier) - nsweep) / 4
		if nb < 1 {
			nb = 1
		}
		chunk := len(names)/nb + 1
		k := (i - nsweep) / 4
		sw := &plan.Sweep{Cross: "plain-pop"}
		for j := k * chunk; j < (k+1)*chunk && j < len(names); j++ {
			sw.OnlyName = append(sw.OnlyName, names[j])
		}
		if len(sw.OnlyName) == 0 {
			// more plans than batches: a random batch
			for j := 0; j < 24; j++ {
				sw.OnlyName = append(sw.OnlyName, names[r.Intn(len(names))])
			}
		}
		// the boundary types of the window are part of every batch
		for _, bt := range boundaryTypes(2) {
			if bt.InPop {
				t := bt.T
				if t.Kind() == reflect.Ptr {
					t = t.Elem()
				}
				sw.OnlyName = append(sw.OnlyName, qualName(t))
			}
		}
		p.Sweep = sw
		return
	}
	if i < nsweep || !(Variant == "inst" || Variant == "inst-race") {
		p.Mode = "typesweep"
		p.Note = "first use of the types listed in the binary's type table, in a seeded order, with reflect-created types in between"
		stride := 3
		if !quick || i < 6 {
			stride = 1 // neighbours in the type table must meet in one process
		}
		sw := &plan.Sweep{Order: []string{"asc", "desc", "random"}[i%3], Seed: r.U64(), Stride: stride, Offset: i / 3, Reflect: r.Range(2, 12), Phased: i%2 == 1}
		if i >= nsweep {
			sw.Order = "random"
			sw.Limit = r.Range(50, 400)
			sw.Stride = 1
		}
		if i%3 == 2 && Variant != "pie" {
			// placement adversary: many run-time descriptors whose addresses
			// share their low 32 bits with the binary's own type window; all
			// static types are processed (stride 1, no limit)
			sw.Alias32 = true
			sw.Reflect = 120
			sw.Stride = 1
			sw.Limit = 0
		}
		p.Sweep = sw
		return
	}
	// concurrent first use under the scheduler (instrumented variants)
	p.Mode = "sessions"
	p.Note = "concurrent first use of neighbouring generated types and reflect types under the scheduler; identity assertion armed"
	n := r.Range(2, 8)
	base := r.Intn(len(genTypes) - 16)
	// flavour: every third plan works on two or three reflect-created types only
	// (fallback-map path of both caches: front caches, copy-on-write publication)
	var onlyReflect []string
	if i%3 == 0 {
		for k := r.Range(2, 3); k > 0; k-- {
			onlyReflect = append(onlyReflect, reflectTypeNames[r.Intn(len(reflectTypeNames))])
		}
	}
	for t := 0; t < n; t++ {
		s := plan.Session{ID: fmt.Sprintf("t%d", t)}
		for k := r.Range(2, 6); k > 0; k-- {
			ty := fmt.Sprintf("G%04d", base+r.Intn(12))
			if r.Chance(1, 3) {
				ty = reflectTypeNames[r.Intn(len(reflectTypeNames))]
			}
			if onlyReflect != nil {
				ty = onlyReflect[r.Intn(len(onlyReflect))]
			}
			if i%3 == 1 && r.Chance(1, 2) {
				s.Steps = append(s.Steps, ptrPrefillStep(r))
				continue
			}
			if r.Chance(1, 3) && !strings.HasPrefix(ty, "R") {
				// the same query text on different types (every generated type has a field F0)
				h := fmt.Sprintf("q%d", t)
				if len(s.Steps) == 0 || s.Steps[0].Op != "query_new" {
					s.Steps = append([]plan.Step{{Op: "query_new", H: h, S1: `["F0"]`}}, s.Steps...)
				}
				s.Steps = append(s.Steps, plan.Step{Op: "marshal_ctx", T: ty, V: valueSeed(r, 0, 1), H: h, S1: "c14"})
			} else if r.Bool() {
				s.Steps = append(s.Steps, plan.Step{Op: "marshal", T: ty, V: valueSeed(r, 0, 1)})
			} else {
				s.Steps = append(s.Steps, plan.Step{Op: "unmarshal", T: ty, Doc: docFor(r, ty, 0, 1)})
			}
		}
		p.Sessions = append(p.Sessions, s)
	}
	asTasks(p, r)
}

var classACache []uint32
var classALoaded bool

// classASites reads the yield-site table the instrumenter wrote for this build
// (path in VERIF_SITES); empty for builds without inserted yields.
func classASites() []uint32 {
	if classALoaded {
		return classACache
	}
	classALoaded = true
	path := os.Getenv("VERIF_SITES")
	if path == "" {
		return nil
	}
	data, err := os.ReadFile(path)
	if err != nil {
		return nil
	}
	var sites []struct {
		ID    uint32 `json:"id"`
		Class int    `json:"class"`
	}
	if json.Unmarshal(data, &sites) != nil {
		return nil
	}
	for _, s := range sites {
		if s.Class == 1 {
			classACache = append(classACache, s.ID)
		}
	}
	return classACache
}

var ptrPreDocs = []string{`{"A":7,"B":"x","C":true}`, `12`, `{"l1":5,"l2":"y","l3":[1],"l4":0.5}`, `[4,5,6]`, `{"a":2,"b":3}`, `"str"`, `{"x":9,"y":"z","z":null}`, `2.5`, `{"name":"n","f":1.5}`, `{"A":1,"B":2,"I":9}`}

// ptrPrefillStep: Unmarshal into an interface{} that holds a non-nil pointer of
// one of ten types (the document fits the pointed-to type).
func ptrPrefillStep(r *plan.Rng) plan.Step {
	k := r.Intn(len(ptrPreDocs))
	v := int64(k)
	if r.Chance(1, 3) {
		v += int64(len(ptrPreDocs)) // the typed nil pointer of the same type
	}
	st := plan.Step{Op: "unmarshal", T: "Iface", V: v, Doc: []byte(ptrPreDocs[k]), Opts: []string{"prefill_ptr"}}
	if r.Chance(1, 4) {
		st.Doc = []byte("null")
	}
	return st
}
