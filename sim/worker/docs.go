package worker

import (
	"bytes"
	"encoding/json"
	"fmt"
	"strings"

	"vsim/plan"
)

// shortDocs: hand-written documents (valid and malformed) of at most 48
// bytes. Every token class appears, so that every scanner's refill branch can
// be reached by some cut.
var shortDocs = []string{
	// literals
	`null`, `true`, `false`, ` null `, `nul`, `nulx`, `nxll`, `tru`, `trux`, `txue`, `fals`, `falsx`, `fxlse`, `nullx`, `truefalse`,
	// surrogate pairs and other escapes in object keys (struct key matchers)
	`{"\ud83d\ude00":1,"A":2}`, `{"A\ud83d\ude00":1,"B":"x"}`, `{"\ud83d":1,"A":2}`, `{"B\u00e9\ud83d\ude00z":"v","A":3}`,
	// rarely used member decoders (type Odd)
	`{"p":"{\"A\":1,\"B\":\"x\",\"C\":true}","f":null,"n":3,"q":"1.5"}`, `{"f":null,"n":1}`, `{"n":2,"f":null,"p":"null","q":null}`,
	// numbers
	`0`, `-0`, `1`, `-1`, `12`, `123`, `1234567890`, `1.5`, `-1.5e10`, `1E+2`, `1e-2`, `0.001`, `123456789012345678901`,
	`1.`, `-`, `01`, `1e`, `1e+`, `-.5`, `.5`, `1.5.5`, `1x`, `12 34`, `-12`, `255`, `256`, `1e400`,
	// strings
	`""`, `"a"`, `"abc"`, `"a b"`, `"\n"`, `"a\nb"`, `"\""`, `"\\"`, `"\/"`, `"\b\f\r\t"`, `"\u0041"`, `"\u00e9"`, `"\u65e5"`, `"é"`, `"日"`,
	`"😀"`, `"\ud83d"`, `"\ude00"`, `"\ud83dx"`, `"\ud83dA"`, `"\ud83d\ude00"`, `"日本"`, `"x\u00e9\n😀"`, `"a😀b"`, `"é😀"`,
	`"\uZZZZ"`, `"\u12"`, `"\x"`, `"abc`, `"abc\`, `"abc\u`, "\"a\nb\"", "\"a\x01b\"", "\"\xff\"", "\"a\xe3\x81\"", "\"\xc0\xaf\"",
	`"\u0000"`, `"mt:key"`, `"CBERR"`, `"AQID"`, `"AQI="`, `"not base64!"`, `"12"`, `"-7"`, `"true"`, `"1.5"`,
	// arrays
	`[]`, `[ ]`, `[1]`, `[1,2]`, `[1, 2, 3]`, `[1,2,3,4]`, `[[1],[2,3]]`, `["a","b"]`, `[null]`, `[true,false,null]`, `[1,"a",null,{}]`,
	`[1,]`, `[,1]`, `[1 2]`, `[1`, `[`, `]`, `[1,2`, `[1]]`, `["a",]`, `[1.5,-2e3]`, `[{"A":1},{"A":2}]`, `[[[[[]]]]]`,
	// objects
	`{}`, `{ }`, `{"a":1}`, `{"A":1}`, `{"A":1,"B":"x","C":true}`, `{"a":{"b":{"c":1}}}`, `{"a":[1,2],"b":null}`, `{"A":null}`,
	`{"A":1,"A":2}`, `{"a":1,}`, `{"a" 1}`, `{"a":}`, `{a:1}`, `{"a":1`, `{"a"`, `{`, `}`, `{"a":1}}`, `{"a":1}x`,
	`{"\u0041":5}`, `{"a\nb":1}`, `{"é":1}`, `{"B":"é\n"}`, `{"x":{"y":[{"z":"w"}]}}`, `{"unknown":1,"A":2}`,
	`{"A":1,"unknown":{"deep":[1,2,{"k":"v\"q"}]}}`, `{"B":"a\\b","A":7}`, `{"u":1,"a":2}`, `{"t":"mt:k","z":"e"}`,
	`{"name":"n","str":"12","f":1.5}`, `{"i":"1","b":"true"}`, `{"P1":1,"PS":{"A":1}}`, `{"1":"a","2":"b"}`, `{"mt:k":1}`,
	// whitespace and concatenations
	"\t\r\n 1", "1 \n", " [ 1 , 2 ] ", "{ \"a\" : 1 }", "1 2", "1\n2\n3", `{}{}`, `[][]`, `"a""b"`, `null null`, `{"A":1} {"A":2}`,
	// NUL and garbage
	"1\x00", "1\x002", "\x00", "[1\x00]", "\"a\x00b\"", "nu\x00ll", `x`, `?`, `-x`, `+1`, `tRue`, `NULL`, `'a'`,
}

// snippets: token-rich fragments; each byte of a snippet is aligned in turn
// with the refill boundaries of the stream buffer.
var snippets = []string{
	"\"" + strings.Repeat("\xff", 300) + "\"", "[\"" + strings.Repeat("\xfe\xff", 260) + "\",1]",
	`"\ud83d\ude00"`, `"x\ud83d\ude00y\u00e9"`, `{"\u0041":1,"B":"\ud83d\ude00"}`, `{"na\u006de":"v","a\u003cb&c":"w"}`,
	`null`, `true`, `false`, `-12.5e+10`, `"a\nbé😀c"`, `"é😀日"`, `{"A":1,"B":"x"}`, `[1,2,3]`,
	`{"key":null,"k2":[true,false]}`, `"\\\"\/"`, `1234567890123`, `{"aA":"日"}`, `[null,true,-0.5,"s",{}]`,
	`"AQIDBAUG"`, `{"name":"n","opt":3,"str":"-12","f":0.25,"a<b&c":"h"}`, `nulx`, `"\uZZ"`, `"\ud83dx"`, `{"unk":{"q":[1,"]"]},"A":1}`,
	"\"bad\xffutf\"", "\"\xe3\x81\x82\xe3\x81\"", `{"u":{"k":1},"pu":[2],"t":"tx","c":3,"l":[1,2]}`,
}

func typesForDoc(doc string, r *plan.Rng, max int) []string {
	d := strings.TrimLeft(doc, " \t\r\n")
	var cands []string
	if d == "" {
		cands = []string{"Iface", "Int", "String"}
	} else {
		switch d[0] {
		case '{':
			cands = []string{"Iface", "Small", "MapStrIface", "Nested", "WithUCB", "Tagged", "Raw", "StrTag", "MapStrInt", "Ptrs", "UJ", "Recursive", "Embedded", "CaseColl", "MapIntString", "MapMTInt", "WithIface", "G0007", "Wide"}
			if strings.Contains(d, `"f":null`) {
				cands = []string{"Iface", "Odd", "Odd", "Small"}
			}
		case '[':
			cands = []string{"Iface", "SliceInt", "SliceIface", "ArrInt3", "SliceString", "SliceSmall", "Raw", "SliceSlice", "SliceUJ", "ArrStr2", "SlicePtrSmall", "ArrU8", "SliceFloat"}
		case '"':
			cands = []string{"Iface", "String", "Bytes", "UT", "Raw", "UJ", "MT", "Number", "PtrPtrString", "Int"}
		case 't', 'f':
			cands = []string{"Iface", "Bool", "Raw", "SliceBool", "PtrInt"}
		case 'n':
			cands = []string{"Iface", "PtrInt", "SliceInt", "String", "Small", "MapStrInt", "Raw", "Bool", "Int", "UJ", "Bytes"}
		default:
			cands = []string{"Iface", "Int", "Float64", "Number", "Uint8", "PtrInt", "Raw", "Int8", "Uint64", "Float32", "String", "UJ", "Int64"}
		}
	}
	if max >= len(cands) {
		return cands
	}
	out := []string{cands[0]}
	perm := r.Perm(len(cands) - 1)
	for _, i := range perm[:max-1] {
		out = append(out, cands[i+1])
	}
	return out
}

// stdDoc marshals the catalogue value (T, seed) with the standard library:
// a generator of documents that fit T, not an oracle.
var oddDocs = []string{`{"p":"{\"A\":1,\"B\":\"x\",\"C\":true}","f":null,"n":3,"q":"1.5"}`, `{"f":null,"n":1}`, `{"n":2,"f":null,"p":"null","q":null}`,
	`{"p":"{\"A\":-7,\"B\":\"\\u00e9\"}","n":5}`, `{"q":"-0.25","f":null}`, `{"p":null,"f":null,"n":0,"q":"1e3"}`}

func stdDoc(ti *TypeInfo, seed int64) []byte {
	if ti.Name == "Odd" {
		// (encoding/json cannot produce documents for it: func member)
		return []byte(oddDocs[int(uint64(seed)%uint64(len(oddDocs)))])
	}
	for try := int64(0); try < 8; try++ {
		s := (seed+try)<<3 | 1 // low bits != 7: not faulty
		v := MakeValue(ti, s)
		b, err := safeStdMarshal(v.Interface())
		if err == nil && len(b) > 0 {
			return b
		}
	}
	return []byte("null")
}

func safeStdMarshal(v interface{}) (b []byte, err error) {
	defer func() {
		if r := recover(); r != nil {
			b, err = nil, ErrCB
		}
	}()
	return json.Marshal(v)
}

// mutate applies one small mutation to a document.
func mutate(doc []byte, r *plan.Rng) []byte {
	if len(doc) == 0 {
		return []byte("x")
	}
	out := append([]byte(nil), doc...)
	p := r.Intn(len(out))
	subs := []byte(`{}[]",:\u0 1-+.eEtfnx` + "\x00\x01\xff\n")
	switch r.Intn(5) {
	case 0:
		return append(out[:p], out[p+1:]...)
	case 1:
		out[p] = subs[r.Intn(len(subs))]
		return out
	case 2:
		ins := subs[r.Intn(len(subs))]
		out = append(out[:p+1], out[p:]...)
		out[p] = ins
		return out
	case 3:
		return out[:p]
	default:
		ws := []string{" ", "\n", "\t", "\r\n  "}
		w := ws[r.Intn(len(ws))]
		// insert whitespace at a structural position if one is found
		for i := p; i < len(out); i++ {
			if strings.IndexByte("{}[],:", out[i]) >= 0 {
				return append(append(append([]byte(nil), out[:i+1]...), w...), out[i+1:]...)
			}
		}
		return append(out, w...)
	}
}

// interestingCuts returns positions inside tokens: after a backslash, inside
// \uXXXX, inside literals and numbers, inside multi-byte characters, around
// structural bytes.
func interestingCuts(doc []byte) []int {
	var out []int
	for i := 1; i < len(doc); i++ {
		c, p := doc[i], doc[i-1]
		switch {
		case p == '\\', c == '\\', p == 'u' && i >= 2 && doc[i-2] == '\\':
			out = append(out, i)
		case c >= 0x80:
			out = append(out, i)
		case strings.IndexByte("{}[],:\"", c) >= 0 || strings.IndexByte("{}[],:\"", p) >= 0:
			out = append(out, i)
		case strings.IndexByte("-+.eE", c) >= 0 || strings.IndexByte("-+.eE", p) >= 0:
			out = append(out, i)
		case strings.IndexByte("ulrsa", c) >= 0 && strings.IndexByte("ntfruals", p) >= 0:
			out = append(out, i)
		}
	}
	return out
}

var sepChoices = []string{" ", "\n", "\t\r\n ", "  ", "\n\n"}

// escapeKey rewrites one object key of the document: one of its characters
// becomes a \uXXXX escape, or a multi-byte escape is appended, or the key is
// cut and continued with an escape (keys that are a prefix or an escaped
// spelling of a field name).
func escapeKey(doc []byte, r *plan.Rng) []byte {
	// find the keys: a string followed by a colon
	type span struct{ a, b int }
	var keys []span
	for i := 0; i < len(doc); i++ {
		if doc[i] != '"' {
			continue
		}
		j := i + 1
		for j < len(doc) && doc[j] != '"' {
			if doc[j] == '\\' {
				j++
			}
			j++
		}
		if j >= len(doc) {
			break
		}
		k := j + 1
		for k < len(doc) && (doc[k] == ' ' || doc[k] == '\n') {
			k++
		}
		if k < len(doc) && doc[k] == ':' && j > i+1 {
			keys = append(keys, span{i + 1, j})
		}
		i = j
	}
	if len(keys) == 0 {
		return doc
	}
	sp := keys[r.Intn(len(keys))]
	key := doc[sp.a:sp.b]
	var nk []byte
	switch r.Intn(5) {
	case 4: // a very long (unknown) key: longer than the stream buffer's first fills
		n := []int{480, 505, 511, 512, 530, 1020, 1030, 2050}[r.Intn(8)]
		nk = append(append([]byte(nil), key...), bytes.Repeat([]byte("k"), n)...)
	case 0: // escape one ASCII character
		p := r.Intn(len(key))
		if key[p] < 0x80 && key[p] != '\\' && (p == 0 || key[p-1] != '\\') {
			nk = append(append(append([]byte(nil), key[:p]...), []byte(fmt.Sprintf("\\u%04x", key[p]))...), key[p+1:]...)
		}
	case 1: // append a multi-byte escape
		nk = append(append([]byte(nil), key...), "\\u3042"...)
	case 2: // cut and continue with an escape
		nk = append(append([]byte(nil), key[:len(key)-1]...), "\\u3042\\ud83d\\ude00"...)
	default: // a simple escape in the middle
		nk = append(append(append([]byte(nil), key[:len(key)/2]...), "\\n"...), key[len(key)/2:]...)
	}
	if nk == nil {
		return doc
	}
	out := append([]byte(nil), doc[:sp.a]...)
	out = append(out, nk...)
	return append(out, doc[sp.b:]...)
}

// dupKeys concatenates the members of two objects: every key of the second
// repeats a key of the first with (mostly) another value.
func dupKeys(a, b []byte) []byte {
	a = bytes.TrimSpace(a)
	b = bytes.TrimSpace(b)
	if len(a) < 3 || len(b) < 3 || a[0] != '{' || b[0] != '{' || a[len(a)-1] != '}' || b[len(b)-1] != '}' {
		return a
	}
	out := append([]byte(nil), a[:len(a)-1]...)
	out = append(out, ',')
	return append(out, b[1:]...)
}

// nullify replaces one to three scalar values of the document by null
// (elements of arrays, member values): decoding null into a Go scalar leaves
// it untouched, so whatever a reused buffer held there would show.
func nullify(doc []byte, r *plan.Rng) []byte {
	type span struct{ a, b int }
	var vals []span
	i := 0
	n := len(doc)
	for i < n {
		c := doc[i]
		switch {
		case c == '"':
			j := i + 1
			for j < n && doc[j] != '"' {
				if doc[j] == '\\' {
					j++
				}
				j++
			}
			j++
			if j > n {
				j = n
			}
			k := j
			for k < n && (doc[k] == ' ' || doc[k] == '\n' || doc[k] == '\t') {
				k++
			}
			if !(k < n && doc[k] == ':') {
				vals = append(vals, span{i, j})
			}
			i = j
		case c == '-' || (c >= '0' && c <= '9'):
			j := i + 1
			for j < n && strings.IndexByte("0123456789+-.eE", doc[j]) >= 0 {
				j++
			}
			vals = append(vals, span{i, j})
			i = j
		case c == 't' && i+4 <= n && string(doc[i:i+4]) == "true":
			vals = append(vals, span{i, i + 4})
			i += 4
		case c == 'f' && i+5 <= n && string(doc[i:i+5]) == "false":
			vals = append(vals, span{i, i + 5})
			i += 5
		default:
			i++
		}
	}
	if len(vals) == 0 {
		return doc
	}
	pick := map[int]bool{}
	for k := r.Range(1, 3); k > 0; k-- {
		pick[r.Intn(len(vals))] = true
	}
	var out []byte
	pos := 0
	for idx, sp := range vals {
		if !pick[idx] {
			continue
		}
		out = append(out, doc[pos:sp.a]...)
		out = append(out, "null"...)
		pos = sp.b
	}
	return append(out, doc[pos:]...)
}

// reshape parses a document generically (numbers kept as text) and writes it
// back with every array stretched to several times its length (stretch) or
// with array elements and member values replaced by null here and there
// (nulls): documents of the same shape as an earlier one whose content
// differs, for the scratch space decoders keep between calls.
func reshape(doc []byte, r *plan.Rng, stretch bool, nulls bool) []byte {
	dec := json.NewDecoder(bytes.NewReader(doc))
	dec.UseNumber()
	var v interface{}
	if err := dec.Decode(&v); err != nil {
		return doc
	}
	var walk func(x interface{}, inArray bool, depth int) interface{}
	walk = func(x interface{}, inArray bool, depth int) interface{} {
		switch t := x.(type) {
		case []interface{}:
			out := make([]interface{}, 0, len(t)*3)
			reps := 1
			if stretch && len(t) > 0 && depth < 3 {
				reps = r.Range(2, 5)
			}
			for k := 0; k < reps; k++ {
				for _, e := range t {
					out = append(out, walk(e, true, depth+1))
				}
			}
			return out
		case map[string]interface{}:
			for k, e := range t {
				t[k] = walk(e, false, depth+1)
			}
			if nulls && inArray && r.Chance(1, 4) {
				return nil
			}
			return t
		default:
			if nulls && ((inArray && r.Chance(1, 2)) || (!inArray && r.Chance(1, 6))) {
				return nil
			}
			return x
		}
	}
	v = walk(v, false, 0)
	out, err := json.Marshal(v)
	if err != nil {
		return doc
	}
	return out
}

var badPieces = []string{"\xff", "\xfe", "\xc0", "\xe3", "\xe3\x81", "\xf0\x9f", "\x80", "\xed\xa0\x80", "\xf4\x90\x80\x80", "\xc2"}

// badUTF8 puts a run of ill-formed UTF-8 (1..60 pieces, now and then with a
// well-formed multi-byte character or an escape in between) into one string of
// the document (a value or a key).
func badUTF8(doc []byte, r *plan.Rng) []byte {
	var quotes []int
	for i := 0; i < len(doc); i++ {
		if doc[i] == '\\' {
			i++
			continue
		}
		if doc[i] == '"' {
			quotes = append(quotes, i)
		}
	}
	var run []byte
	for k := r.Range(1, 60); k > 0; k-- {
		run = append(run, badPieces[r.Intn(len(badPieces))]...)
		switch r.Intn(12) {
		case 0:
			run = append(run, "é"...)
		case 1:
			run = append(run, "😀"...)
		case 2:
			run = append(run, `\n`...)
		case 3:
			run = append(run, 'a')
		}
	}
	if len(quotes) < 2 {
		return append(append([]byte(`"`), run...), '"')
	}
	q := quotes[r.Intn(len(quotes)/2)*2] // an opening quote
	out := append([]byte(nil), doc[:q+1]...)
	out = append(out, run...)
	return append(out, doc[q+1:]...)
}

var alignSnippets = []string{`[true,false,null]`, `{"a":true,"b":null,"c":false}`, `"abc\u00e9\n\\"`, `[1.5e+10,-0,123456789]`, `[[],{},[{}]]`, `{"k":"v\ud83d\ude00"}`, `null`, `true`, `false`, `-12.5E-3`}

// alignedText: a text whose length is (about) a buffer capacity minus one: white
// space or a padded string in front of a snippet that is cut somewhere, so that
// the last bytes of the text are the last bytes of a pooled or freshly sized
// buffer (capacities: powers of two, one and a half times a power of two, and
// multiples of the buffer-size knob of the build variant).
func alignedText(r *plan.Rng) []byte {
	var caps []int
	for k := 4; k <= 13; k++ {
		caps = append(caps, 1<<uint(k), 3<<uint(k-1))
	}
	var kb int
	if i := strings.Index(Variant, "-b"); i >= 0 {
		fmt.Sscanf(Variant[i+2:], "%d", &kb)
	}
	for j := 0; kb > 0 && j < 8; j++ {
		caps = append(caps, kb<<uint(j))
	}
	total := caps[r.Intn(len(caps))] + r.Range(-2, 1)
	sn := alignSnippets[r.Intn(len(alignSnippets))]
	if r.Chance(3, 4) {
		sn = sn[:r.Range(1, len(sn))]
	}
	pad := total - len(sn)
	if pad < 0 {
		return []byte(sn)
	}
	var out []byte
	switch r.Intn(3) {
	case 0:
		out = append(out, repeatByte(' ', pad)...)
	case 1:
		if pad >= 4 {
			out = append(out, `["`...)
			out = append(out, repeatByte('p', pad-4)...)
			out = append(out, `",`...)
		} else {
			out = append(out, repeatByte(' ', pad)...)
		}
	default:
		if pad >= 5 {
			out = append(out, `{"`...)
			out = append(out, repeatByte('k', pad-4)...)
			out = append(out, `":`...)
		} else {
			out = append(out, repeatByte(' ', pad)...)
		}
	}
	return append(out, sn...)
}
