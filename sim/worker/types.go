package worker

import (
	"context"
	"encoding/json"
	"errors"
	"fmt"
	"reflect"
	"runtime"
	"sort"
	"strings"

	gojson "github.com/goccy/go-json"
	"github.com/goccy/go-json/verifsim"
)

// ---------------------------------------------------------------- plain types

type Small struct {
	A int
	B string
	C bool
}

type Tagged struct {
	Name   string  `json:"name"`
	Opt    int     `json:"opt,omitempty"`
	OptS   string  `json:"opts,omitempty"`
	Str    int64   `json:"str,string"`
	Skip   int     `json:"-"`
	Dash   int     `json:"-,"`
	F      float64 `json:"f"`
	P      *int    `json:"p,omitempty"`
	Html   string  `json:"a<b&c"`
	hidden int
}

type Big struct {
	F00 int
	F01 string
	F02 bool
	F03 float64
	F04 []int
	F05 *string
	F06 map[string]int
	F07 int8
	F08 uint16
	F09 int32
	F10 uint64
	F11 string `json:"eleven"`
	F12 []string
	F13 *Small
	F14 Small
	F15 interface{}
	F16 []byte
	F17 json.Number
	F18 float32
	F19 [2]int
}

type Inner struct {
	X int    `json:"x"`
	Y string `json:"y"`
	Z *Leaf  `json:"z"`
}

type Leaf struct {
	L1 int     `json:"l1"`
	L2 string  `json:"l2"`
	L3 []int   `json:"l3"`
	L4 float64 `json:"l4"`
}

type Nested struct {
	ID    int               `json:"id"`
	In    Inner             `json:"in"`
	PIn   *Inner            `json:"pin"`
	Ins   []Inner           `json:"ins"`
	MIn   map[string]Inner  `json:"min"`
	PIns  []*Inner          `json:"pins"`
	Leaf  Leaf              `json:"leaf"`
	Any   interface{}       `json:"any"`
	MLeaf map[string]*Leaf  `json:"mleaf"`
	Name  string            `json:"name"`
	Tags  map[string]string `json:"tags"`
}

type EmbBase struct {
	ID   int
	Name string
}

type EmbPtr struct {
	Extra string
	Name  string
}

type Embedded struct {
	EmbBase
	*EmbPtr
	Own int `json:"own"`
}

type Recursive struct {
	V    int                   `json:"v"`
	Next *Recursive            `json:"next,omitempty"`
	Kids []Recursive           `json:"kids,omitempty"`
	M    map[string]*Recursive `json:"m,omitempty"`
}

type MutA struct {
	N int
	B *MutB
}
type MutB struct {
	S string
	A *MutA
	L []MutA
}

type WithIface struct {
	Pre  int
	X    interface{}
	Post string
	Y    interface{}
}

type WithBytes struct {
	B   []byte
	R   json.RawMessage
	N   json.Number
	S   string
	PB  *[]byte
	BS  [][]byte
	Arr [4]byte
}

type StrTag struct {
	I int     `json:"i,string"`
	U uint8   `json:"u,string"`
	F float64 `json:"f,string"`
	B bool    `json:"b,string"`
	S string  `json:"s,string"`
	P *int    `json:"p,string"`
}

type CaseColl struct {
	Ab  int
	AB  int `json:"ab"`
	Abc int `json:"ABC"`
	A   string
}

type Ptrs struct {
	P1 *int
	P2 **string
	P3 ***bool
	PS *Small
	PM *map[string]int
	PL *[]int
}

type Wide struct {
	A, B, C, D, E, F, G, H, I int
}

type Floats struct {
	F64 float64
	F32 float32
	L   []float64
	M   map[string]float32
}

type Ints struct {
	I8  int8
	I16 int16
	I32 int32
	I64 int64
	U8  uint8
	U16 uint16
	U32 uint32
	U64 uint64
	I   int
	U   uint
	UP  uintptr
}

type IntKeys struct {
	M  map[int]string
	MU map[uint8]int
	M6 map[int64]bool
}

type Unsupported struct {
	A int
	C chan int
}

// unsupported members below supported catalogue structs: the compile fails
// half-way, after the structs in front of the bad member have been entered
type Unsupported2 struct {
	S Small
	N Nested
	W *Wide
	C chan int
}
type Unsupported3 struct {
	B []Big
	L *Leaf
	F func()
}
type Unsupported4 struct {
	M  map[string]Tagged
	In struct {
		X Small
		C chan string
	}
}

// Odd: members that take rarely used decoders: a pointer to a struct behind
// the ",string" option (go-json unwraps the string and decodes its content),
// and a func member (only null is acceptable).
type Odd struct {
	P *Small   `json:"p,string"`
	F func()   `json:"f"`
	N int      `json:"n"`
	Q *float64 `json:"q,string"`
}

// non-empty interface member
type Shape interface{ Area() int }
type Sq struct{ S int }

func (s Sq) Area() int { return s.S * s.S }

type WithShape struct {
	Name string
	Sh   Shape
}

// ---------------------------------------------------------------- callbacks
//
// The behaviour of every callback is a pure function of the value it is
// called on (marshalers) or of the bytes it receives (unmarshalers), so it is
// the same in every process and needs no shared script state.

const (
	cbOK = iota
	cbErr
	cbPanic
	cbReenter
	cbGC
	cbGrow
	cbBadJSON
	cbYield
)

var ErrCB = errors.New("callback-error")

type ctxKey struct{}

func CtxWith(v string) context.Context {
	return context.WithValue(context.Background(), ctxKey{}, v)
}

func ctxVal(ctx context.Context) string {
	if ctx == nil {
		return "ctx=nil"
	}
	v, _ := ctx.Value(ctxKey{}).(string)
	q := gojson.FieldQueryFromContext(ctx)
	if v == "" && q == nil {
		// context.Background() and a context without our key look the same
		return "ctx=<no value>"
	}
	qs := ""
	if q != nil {
		qs = ";q=" + queryText(q)
	}
	return "ctx=" + v + qs
}

func queryText(q *gojson.FieldQuery) string {
	if q == nil {
		return "nil"
	}
	var sb strings.Builder
	sb.WriteString(q.Name)
	if len(q.Fields) > 0 {
		sb.WriteString("(")
		for i, f := range q.Fields {
			if i > 0 {
				sb.WriteString(",")
			}
			sb.WriteString(queryText(f))
		}
		sb.WriteString(")")
	}
	return sb.String()
}

//go:noinline
func growStack(n int) int {
	var pad [256]byte
	pad[n%256] = byte(n)
	if n <= 0 {
		return int(pad[0])
	}
	return growStack(n-1) + int(pad[n%256])
}

func cbSideEffect(mode int, site uint32) error {
	verifsim.Yield(site)
	switch mode {
	case cbErr:
		Count("cb_error")
		return ErrCB
	case cbPanic:
		Count("cb_panic")
		panic("callback-panic")
	case cbReenter:
		Count("cb_reenter")
		// (one map entry only: go-json walks a Go map in Go's random order, which
		// would make the order of yield points differ from run to run)
		b, err := gojson.Marshal(map[string]interface{}{"re": []interface{}{[]int{1, 2, 3}, Small{A: 7, B: "re<enter>", C: true}}})
		if err != nil || string(b) != `{"re":[[1,2,3],{"A":7,"B":"re\u003center\u003e","C":true}]}` {
			panic(fmt.Sprintf("reentrant marshal wrong: %s %v", b, err))
		}
		var s Small
		if err := gojson.Unmarshal([]byte(`{"A":9,"B":"x","C":true}`), &s); err != nil || s != (Small{9, "x", true}) {
			panic(fmt.Sprintf("reentrant unmarshal wrong: %+v %v", s, err))
		}
	case cbGC:
		Count("cb_gc")
		runtime.GC()
		runtime.GC()
	case cbGrow:
		Count("cb_stackgrow")
		growStack(600)
	case cbYield:
		verifsim.Yield(site)
	}
	return nil
}

// MJ: value-receiver MarshalJSON.
type MJ struct {
	Mode int    `json:"-"`
	Pay  string `json:"-"`
}

func (m MJ) MarshalJSON() ([]byte, error) {
	if err := cbSideEffect(m.Mode, seamCBMarshal); err != nil {
		return nil, err
	}
	if m.Mode == cbBadJSON {
		return []byte(`{"bad":`), nil
	}
	b, _ := json.Marshal(map[string]string{"mj": m.Pay})
	return b, nil
}

// MJP: pointer-receiver MarshalJSON.
type MJP struct {
	Mode int    `json:"-"`
	Pay  string `json:"-"`
}

func (m *MJP) MarshalJSON() ([]byte, error) {
	if m == nil {
		return []byte(`"nil-mjp"`), nil
	}
	if err := cbSideEffect(m.Mode, seamCBMarshal); err != nil {
		return nil, err
	}
	b, _ := json.Marshal([]interface{}{"mjp", m.Pay})
	return b, nil
}

// MT: MarshalText (also usable as a map key).
type MT struct {
	Mode int
	Pay  string
}

func (m MT) MarshalText() ([]byte, error) {
	if err := cbSideEffect(m.Mode, seamCBMarshal); err != nil {
		return nil, err
	}
	return []byte("mt:" + m.Pay), nil
}

func (m *MT) UnmarshalText(b []byte) error {
	if err := unmarshalSideEffect(b); err != nil {
		return err
	}
	m.Pay = strings.TrimPrefix(string(b), "mt:")
	return nil
}

// MJC: context-aware marshaler; its output shows the context it was given.
type MJC struct {
	Mode int    `json:"-"`
	Pay  string `json:"-"`
}

func (m MJC) MarshalJSON(ctx context.Context) ([]byte, error) {
	if err := cbSideEffect(m.Mode, seamCBMarshal); err != nil {
		return nil, err
	}
	b, _ := json.Marshal(map[string]string{"mjc": m.Pay, "seen": ctxVal(ctx)})
	return b, nil
}

// MJQ: context-aware marshaler that forwards the sub-query, as the README
// recommends for FieldQuery support.
type MJQ struct {
	K1 int    `json:"k1"`
	K2 string `json:"k2"`
	K3 bool   `json:"k3"`
}

type mjqPlain MJQ

func (m MJQ) MarshalJSON(ctx context.Context) ([]byte, error) {
	verifsim.Yield(seamCBMarshal)
	if ctx == nil || gojson.FieldQueryFromContext(ctx) == nil {
		return gojson.Marshal(mjqPlain(m))
	}
	return gojson.MarshalContext(ctx, mjqPlain(m))
}

func unmarshalSideEffect(b []byte) error {
	s := string(b)
	mode := cbOK
	switch {
	case strings.Contains(s, "CBERR"):
		mode = cbErr
	case strings.Contains(s, "CBPANIC"):
		mode = cbPanic
	case strings.Contains(s, "CBREENTER"):
		mode = cbReenter
	case strings.Contains(s, "CBGC"):
		mode = cbGC
	case strings.Contains(s, "CBGROW"):
		mode = cbGrow
	}
	return cbSideEffect(mode, seamCBUnmarshal)
}

// UJ: UnmarshalJSON that keeps the slice it was given (allowed to look at it
// only during the call by contract, but C12 says later changes of the caller's
// input must not reach it, so it keeps an alias to find out).
type UJ struct {
	Got  string `json:"-"`
	Kept []byte `json:"-"`
	N    int    `json:"-"`
}

func (u *UJ) UnmarshalJSON(b []byte) error {
	if err := unmarshalSideEffect(b); err != nil {
		return err
	}
	u.Got = string(b)
	u.Kept = b
	u.N++
	return nil
}

func (u UJ) MarshalJSON() ([]byte, error) {
	if u.Got == "" {
		return []byte("null"), nil
	}
	return []byte(u.Got), nil
}

type UT struct {
	Got  string
	Kept []byte `json:"-"`
}

func (u *UT) UnmarshalText(b []byte) error {
	if err := unmarshalSideEffect(b); err != nil {
		return err
	}
	u.Got = string(b)
	u.Kept = b
	return nil
}

func (u UT) MarshalText() ([]byte, error) { return []byte(u.Got), nil }

// UJC: context-aware unmarshaler.
type UJC struct {
	Got  string `json:"-"`
	Seen string `json:"-"`
}

func (u *UJC) UnmarshalJSON(ctx context.Context, b []byte) error {
	if err := unmarshalSideEffect(b); err != nil {
		return err
	}
	u.Got = string(b)
	u.Seen = ctxVal(ctx)
	return nil
}

func (u UJC) MarshalJSON() ([]byte, error) {
	if u.Got == "" {
		return []byte("null"), nil
	}
	return []byte(u.Got), nil
}

// Chain: a long linked value kept in a handle, so that the same object graph
// can be encoded again after a call on it failed half-way. Whether the deepest
// marshaler fails is decided by the context given to the call (an argument),
// not by mutating the value.
type Chain struct {
	V    int    `json:"v"`
	M    MJX    `json:"m"`
	Next *Chain `json:"next,omitempty"`
}

type MJX struct {
	Last bool `json:"-"`
}

func (m MJX) MarshalJSON(ctx context.Context) ([]byte, error) {
	verifsim.Yield(seamCBMarshal)
	if m.Last && ctx != nil {
		if v, _ := ctx.Value(ctxKey{}).(string); strings.Contains(v, "CBERR") {
			Count("cb_error")
			return nil, ErrCB
		}
	}
	if m.Last {
		return []byte(`"last"`), nil
	}
	return []byte(`"n"`), nil
}

func newChain(depth int, seed int64) *Chain {
	head := &Chain{V: 0}
	cur := head
	for i := 1; i < depth; i++ {
		cur.Next = &Chain{V: i}
		cur = cur.Next
	}
	cur.M.Last = true
	return head
}

// Marker: a non-empty interface; a destination field of this type that already
// holds a *UJC is decoded through the interface decoder's unmarshaler path.
type Marker interface{ Mark() }

func (u *UJC) Mark() {}

type WithNE struct {
	A int    `json:"a"`
	N Marker `json:"n"`
	Z string `json:"z"`
}

type WithCB struct {
	A  int        `json:"a"`
	M  MJ         `json:"m"`
	P  *MJP       `json:"p"`
	T  MT         `json:"t"`
	C  MJC        `json:"c"`
	Z  string     `json:"z"`
	MK map[MT]int `json:"mk"`
	L  []MJ       `json:"l"`
	PL []*MJP     `json:"pl"`
}

type WithUCB struct {
	A  int            `json:"a"`
	U  UJ             `json:"u"`
	PU *UJ            `json:"pu"`
	T  UT             `json:"t"`
	C  UJC            `json:"c"`
	Z  string         `json:"z"`
	L  []UJ           `json:"l"`
	M  map[string]*UJ `json:"m"`
	MT map[MT]int     `json:"mt"`
}

type WithQ struct {
	ID  int             `json:"id"`
	Q   MJQ             `json:"q"`
	PQ  *MJQ            `json:"pq"`
	Sub Inner           `json:"sub"`
	L   []Leaf          `json:"l"`
	M   map[string]Leaf `json:"m"`
	I   interface{}     `json:"i"`
	S   string          `json:"s"`
}

// ---------------------------------------------------------------- registry

type TypeInfo struct {
	Name   string
	T      reflect.Type
	HasMCB bool // contains marshaler callbacks
	HasUCB bool // contains unmarshaler callbacks
	Struct bool
	Fields []string // JSON member names (for queries)
	NoStd  bool     // encoding/json cannot handle it identically (context-aware callbacks)
	Gen    bool     // generated family
	Bad    bool     // unsupported by JSON (error expected)
}

var (
	typeList []*TypeInfo
	typeMap  = map[string]*TypeInfo{}
)

func reg(name string, v interface{}, flags ...string) {
	ti := &TypeInfo{Name: name, T: reflect.TypeOf(v)}
	for _, f := range flags {
		switch f {
		case "mcb":
			ti.HasMCB = true
		case "ucb":
			ti.HasUCB = true
		case "nostd":
			ti.NoStd = true
		case "gen":
			ti.Gen = true
		case "bad":
			ti.Bad = true
		}
	}
	if ti.T.Kind() == reflect.Struct {
		ti.Struct = true
		ti.Fields = jsonFieldNames(ti.T)
	}
	if _, dup := typeMap[name]; dup {
		panic("duplicate type " + name)
	}
	typeMap[name] = ti
	typeList = append(typeList, ti)
}

func jsonFieldNames(t reflect.Type) []string {
	var out []string
	for i := 0; i < t.NumField(); i++ {
		f := t.Field(i)
		if f.PkgPath != "" && !f.Anonymous {
			continue
		}
		tag := f.Tag.Get("json")
		if tag == "-" {
			continue
		}
		name := f.Name
		if i := strings.Index(tag, ","); i >= 0 {
			if tag[:i] != "" {
				name = tag[:i]
			}
		} else if tag != "" {
			name = tag
		}
		if f.Anonymous && tag == "" {
			continue
		}
		out = append(out, name)
	}
	return out
}

func init() {
	reg("Int", int(0))
	reg("Int8", int8(0))
	reg("Int16", int16(0))
	reg("Int32", int32(0))
	reg("Int64", int64(0))
	reg("Uint", uint(0))
	reg("Uint8", uint8(0))
	reg("Uint16", uint16(0))
	reg("Uint32", uint32(0))
	reg("Uint64", uint64(0))
	reg("Float64", float64(0))
	reg("Float32", float32(0))
	reg("Bool", false)
	reg("String", "")
	reg("Bytes", []byte(nil))
	reg("Number", json.Number(""))
	reg("Raw", json.RawMessage(nil))
	reg("Iface", (*interface{})(nil))
	reg("SliceInt", []int(nil))
	reg("SliceString", []string(nil))
	reg("SliceIface", []interface{}(nil))
	reg("SliceBool", []bool(nil))
	reg("SliceFloat", []float64(nil))
	reg("SliceSmall", []Small(nil))
	reg("SlicePtrSmall", []*Small(nil))
	reg("SliceSlice", [][]int(nil))
	reg("ArrInt3", [3]int{})
	reg("ArrStr2", [2]string{})
	reg("ArrU8", [5]uint8{})
	reg("ArrSmall2", [2]Small{})
	reg("MapStrInt", map[string]int(nil))
	reg("MapStrIface", map[string]interface{}(nil))
	reg("MapStrString", map[string]string(nil))
	reg("MapIntString", map[int]string(nil))
	reg("MapStrSmall", map[string]Small(nil))
	reg("MapStrPtrSmall", map[string]*Small(nil))
	reg("MapStrSlice", map[string][]string(nil))
	reg("MapStrMap", map[string]map[string]int(nil))
	reg("PtrInt", (*int)(nil))
	reg("PtrPtrString", (**string)(nil))
	reg("PtrSmall", (*Small)(nil))
	reg("Small", Small{})
	reg("Tagged", Tagged{})
	reg("Big", Big{})
	reg("Nested", Nested{})
	reg("Inner", Inner{})
	reg("Leaf", Leaf{})
	reg("Embedded", Embedded{})
	reg("Recursive", Recursive{})
	reg("MutA", MutA{})
	reg("WithIface", WithIface{})
	reg("WithBytes", WithBytes{})
	reg("StrTag", StrTag{})
	reg("CaseColl", CaseColl{})
	reg("Ptrs", Ptrs{})
	reg("Wide", Wide{})
	reg("Floats", Floats{})
	reg("Ints", Ints{})
	reg("IntKeys", IntKeys{})
	reg("WithShape", WithShape{})
	reg("Odd", Odd{}, "nostd")
	reg("Unsupported", Unsupported{}, "bad")
	reg("Unsupported2", Unsupported2{}, "bad")
	reg("Unsupported3", Unsupported3{}, "bad")
	reg("Unsupported4", Unsupported4{}, "bad")
	reg("MJ", MJ{}, "mcb")
	reg("MJP", MJP{}, "mcb")
	reg("MT", MT{}, "mcb", "ucb")
	reg("MJC", MJC{}, "mcb", "nostd")
	reg("MJQ", MJQ{}, "mcb", "nostd")
	reg("UJ", UJ{}, "ucb")
	reg("UT", UT{}, "ucb")
	reg("UJC", UJC{}, "ucb", "nostd")
	reg("WithCB", WithCB{}, "mcb", "nostd")
	reg("Chain", Chain{}, "mcb", "nostd")
	reg("WithUCB", WithUCB{}, "ucb", "nostd")
	reg("WithNE", WithNE{}, "ucb", "nostd")
	reg("WithQ", WithQ{}, "mcb", "nostd")
	reg("SliceMJ", []MJ(nil), "mcb")
	reg("SlicePtrMJP", []*MJP(nil), "mcb")
	reg("MapMTInt", map[MT]int(nil), "mcb", "ucb")
	reg("SliceUJ", []UJ(nil), "ucb")
	reg("MapStrUJ", map[string]UJ(nil), "ucb")
	regGenerated()
	regReflect()
	sort.SliceStable(typeList, func(i, j int) bool { return false })
}

// Iface is registered through a *interface{} value: unwrap.
func (ti *TypeInfo) Type() reflect.Type {
	if ti.Name == "Iface" {
		return reflect.TypeOf((*interface{})(nil)).Elem()
	}
	return ti.T
}

func lookupType(name string) *TypeInfo {
	ti := typeMap[name]
	if ti == nil {
		panic("unknown catalogue type " + name)
	}
	return ti
}

// plainTypes returns the names of the hand-written (non generated) types.
func plainTypes(pred func(*TypeInfo) bool) []string {
	var out []string
	for _, ti := range typeList {
		if ti.Gen {
			continue
		}
		if pred == nil || pred(ti) {
			out = append(out, ti.Name)
		}
	}
	return out
}

// Reflect-created types: their descriptors live on the heap, outside the
// address window of the binary's own types, so they take the fallback
// (copy-on-write map) path of both caches.
var reflectTypeNames []string

func regReflect() {
	base := []reflect.Type{reflect.TypeOf(0), reflect.TypeOf(""), reflect.TypeOf(true), reflect.TypeOf(1.5), reflect.TypeOf(Small{}), reflect.TypeOf([]int(nil)), reflect.TypeOf(Leaf{}), reflect.TypeOf(map[string]int(nil))}
	for i := 0; i < 24; i++ {
		var t reflect.Type
		b := base[i%len(base)]
		switch i % 6 {
		case 0:
			t = reflect.StructOf([]reflect.StructField{
				{Name: fmt.Sprintf("RA%d", i), Type: b, Tag: reflect.StructTag(fmt.Sprintf(`json:"ra%d"`, i))},
				{Name: "RB", Type: base[(i+3)%len(base)], Tag: `json:"rb,omitempty"`},
			})
		case 1:
			t = reflect.SliceOf(reflect.ArrayOf(i+2, b))
		case 2:
			t = reflect.MapOf(reflect.TypeOf(""), reflect.ArrayOf(i+40, b))
		case 3:
			t = reflect.ArrayOf(i+90, b)
		case 4:
			t = reflect.PointerTo(reflect.ArrayOf(i+140, b))
		default:
			t = reflect.StructOf([]reflect.StructField{
				{Name: fmt.Sprintf("RC%d", i), Type: reflect.SliceOf(b)},
				{Name: "RD", Type: reflect.PointerTo(reflect.ArrayOf(i+200, b)), Tag: `json:"rd"`},
				{Name: "RE", Type: reflect.TypeOf((*interface{})(nil)).Elem()},
			})
		}
		name := fmt.Sprintf("R%02d", i)
		ti := &TypeInfo{Name: name, T: t, Gen: true, Struct: t.Kind() == reflect.Struct}
		typeMap[name] = ti
		typeList = append(typeList, ti)
		reflectTypeNames = append(reflectTypeNames, name)
	}
}
