// Package verifsim is the simulation runtime that is copied into the scratch
// copy of go-json (as github.com/goccy/go-json/verifsim) at check time.
//
// It provides
//   - a cooperative scheduler: tasks are real goroutines, exactly one of them
//     runs at any instant, control is handed over only at Yield points and at
//     blocking operations of the simulated sync types;
//   - the hand-over uses plain memory in //go:norace functions plus
//     runtime.Gosched spinning, so that the race detector sees no
//     happens-before edge between tasks other than the ones the library itself
//     creates (through the simulated sync types, which wrap the real ones);
//   - Pool, Mutex, RWMutex, Once with the method sets of their sync
//     counterparts.
//
// With no scheduler attached every function degrades to the plain behaviour.
package verifsim

import (
	"runtime"
	"sync/atomic"
)

// doneHB gives the race detector the one edge the harness needs: everything a
// task did happens before the scheduler's caller reads the results.
var doneHB int32

const (
	stRunnable = iota
	stBlocked
	stDone
)

// Site classes (high byte of a site id).
const (
	ClassSeam = 0 // reader/writer/callback seams of the harness
	ClassA    = 1 // locks, atomics, pools, package-level variables
	ClassB    = 2 // stores through selectors / index expressions
	ClassC    = 3 // function entries
)

type Task struct {
	ID      int
	quiet   int         // >0: inside a map-ranging loop of the library, yields are ignored
	sites   [4][]uint32 // per-task passage count of every site
	turn    int32
	state   int
	waitOn  interface{}
	fn      func()
	Panic   interface{}
	Steps   uint64
	started bool
}

// Point is an explicit scheduling decision: when the global yield counter
// reaches At (or, if Site != 0, when site Site is reached for the Occ-th
// time), switch to task To (or to the next runnable task if To is not
// runnable or To < 0).
type Point struct {
	At   uint64 `json:"at,omitempty"`
	Site uint32 `json:"site,omitempty"`
	Occ  uint32 `json:"occ,omitempty"`
	Task int    `json:"task"` // the task that passes the site (-1: any)
	To   int    `json:"to"`
}

type Switch struct {
	At   uint64 `json:"at"`
	Site uint32 `json:"site"`
	Occ  uint32 `json:"occ"`
	From int    `json:"from"`
	To   int    `json:"to"`
}

type Config struct {
	// Random strategy: at a yield of class c switch with probability
	// Prob[c]/65536, drawn from a xorshift generator seeded with Seed.
	Seed uint64
	Prob [4]uint32
	// Explicit points (used for replay and shrinking, and for PCT-like
	// strategies where the generator places d change points).
	Points []Point
	// MaxYields aborts the run (livelock guard) when exceeded; 0 = no limit.
	MaxYields uint64
}

type Result struct {
	Yields     uint64
	Switches   []Switch
	Deadlock   bool
	Blocked    []int // ids of blocked tasks when a deadlock was declared
	Aborted    bool  // MaxYields exceeded
	LogHash    uint64
	SiteCounts map[uint32]uint32
}

var (
	active     bool
	tasks      []*Task
	cur        *Task
	mainTurn   int32
	cfg        Config
	rng        uint64
	yieldCount uint64
	siteCount  [4][]uint32
	switches   []Switch
	deadlock   bool
	aborted    bool
	logHash    uint64
	pointIdx   map[uint64][]int // At -> indices into cfg.Points
	sitePoints map[uint64][]int // site<<32|occ -> indices
)

//go:norace
func Active() bool { return active }

//go:norace
func CurrentTask() int {
	if !active || cur == nil {
		return -1
	}
	return cur.ID
}

//go:norace
func YieldCount() uint64 { return yieldCount }

// Debugging aid (determinism work): with EnableTrace(n) the first n yields are
// recorded as task<<32|site in a preallocated array.
var (
	traceBuf []uint64
	traceN   int
)

//go:norace
func EnableTrace(n int) { traceBuf = make([]uint64, n); traceN = 0 }

//go:norace
func Trace() []uint64 { return traceBuf[:traceN] }

//go:norace
func mix(v uint64) {
	logHash ^= v
	logHash *= 1099511628211
}

//go:norace
func nextRand() uint64 {
	x := rng
	x ^= x << 13
	x ^= x >> 7
	x ^= x << 17
	rng = x
	return x
}

// Run executes fns as tasks under the scheduler and returns when all of them
// have finished, or when no task can run (deadlock), or when the yield budget
// is exhausted. It must be called from a goroutine that is not a task.
//
//go:norace
func Run(c Config, fns []func()) Result {
	cfg = c
	rng = c.Seed*2685821657736338717 + 0x9E3779B97F4A7C15
	if rng == 0 {
		rng = 1
	}
	yieldCount = 0
	for i := range siteCount {
		siteCount[i] = make([]uint32, 1<<16)
	}
	switches = make([]Switch, 0, 4096)
	deadlock = false
	aborted = false
	logHash = 14695981039346656037
	pointIdx = map[uint64][]int{}
	sitePoints = map[uint64][]int{}
	for i, p := range c.Points {
		if p.Site != 0 {
			k := uint64(p.Site)<<32 | uint64(p.Occ)
			sitePoints[k] = append(sitePoints[k], i)
		} else {
			pointIdx[p.At] = append(pointIdx[p.At], i)
		}
	}
	tasks = make([]*Task, len(fns))
	for i, fn := range fns {
		tasks[i] = &Task{ID: i, fn: fn}
		for c := range tasks[i].sites {
			tasks[i].sites[c] = make([]uint32, 1<<16)
		}
	}
	mainTurn = 0
	active = true
	for _, t := range tasks {
		startTask(t)
	}
	// hand control to the first task
	first := tasks[0]
	if len(pointIdx[0]) > 0 {
		to := cfg.Points[pointIdx[0][0]].To
		if to >= 0 && to < len(tasks) {
			first = tasks[to]
		}
	}
	cur = first
	first.turn = 1
	waitMain()
	atomic.LoadInt32(&doneHB) // acquire
	active = false
	cur = nil
	res := Result{
		Yields:     yieldCount,
		Switches:   switches,
		Deadlock:   deadlock,
		Aborted:    aborted,
		LogHash:    logHash,
		SiteCounts: map[uint32]uint32{},
	}
	for c := range siteCount {
		for i, n := range siteCount[c] {
			if n != 0 {
				res.SiteCounts[uint32(c)<<24|uint32(i)] = n
			}
		}
	}
	if deadlock {
		for _, t := range tasks {
			if t.state == stBlocked {
				res.Blocked = append(res.Blocked, t.ID)
			}
		}
	}
	return res
}

func startTask(t *Task) {
	go taskMain(t)
}

//go:norace
func taskMain(t *Task) {
	waitTurn(t)
	runTaskBody(t)
	atomic.AddInt32(&doneHB, 1) // release
	taskDone(t)
}

func runTaskBody(t *Task) {
	defer func() {
		if r := recover(); r != nil {
			setPanic(t, r)
		}
	}()
	t.fn()
}

//go:norace
func setPanic(t *Task, r interface{}) { t.Panic = r }

//go:norace
func TaskPanic(i int) interface{} { return tasks[i].Panic }

//go:norace
func waitTurn(t *Task) {
	for t.turn == 0 {
		runtime.Gosched()
	}
}

//go:norace
func waitMain() {
	for mainTurn == 0 {
		runtime.Gosched()
	}
}

//go:norace
func taskDone(t *Task) {
	t.state = stDone
	mix(uint64(t.ID)<<8 | 0xD0)
	next := pickNext(t, -1)
	if next == nil {
		finish()
		return
	}
	recordSwitch(0, t, next)
	cur = next
	t.turn = 0
	next.turn = 1
}

//go:norace
func finish() {
	for _, t := range tasks {
		if t.state != stDone {
			deadlock = true
		}
	}
	cur = nil
	mainTurn = 1
}

// pickNext returns the runnable task with the given preferred id, or else the
// runnable task with the lowest id different from t, or nil.
//
//go:norace
func pickNext(t *Task, prefer int) *Task {
	if prefer >= 0 && prefer < len(tasks) && tasks[prefer] != t && tasks[prefer].state == stRunnable {
		return tasks[prefer]
	}
	for _, c := range tasks {
		if c != t && c.state == stRunnable {
			return c
		}
	}
	return nil
}

//go:norace
func hash3(a, b, c uint64) uint64 {
	x := a*0x9E3779B97F4A7C15 ^ b
	x ^= x >> 29
	x *= 0xBF58476D1CE4E5B9
	x ^= c * 0x94D049BB133111EB
	x ^= x >> 32
	x *= 0xD6E8FEB86659FD93
	x ^= x >> 29
	return x
}

//go:norace
func pickHashed(t *Task, h uint64) *Task {
	n := 0
	for _, c := range tasks {
		if c != t && c.state == stRunnable {
			n++
		}
	}
	if n == 0 {
		return nil
	}
	k := int(h % uint64(n))
	for _, c := range tasks {
		if c != t && c.state == stRunnable {
			if k == 0 {
				return c
			}
			k--
		}
	}
	return nil
}

//go:norace
func pickRandom(t *Task) *Task {
	n := 0
	for _, c := range tasks {
		if c != t && c.state == stRunnable {
			n++
		}
	}
	if n == 0 {
		return nil
	}
	k := int(nextRand() % uint64(n))
	for _, c := range tasks {
		if c != t && c.state == stRunnable {
			if k == 0 {
				return c
			}
			k--
		}
	}
	return nil
}

//go:norace
func recordSwitch(site uint32, from, to *Task) {
	var occ uint32
	if site != 0 {
		occ = from.sites[(site>>24)&3][site&0xFFFF]
	}
	s := Switch{At: yieldCount, Site: site, Occ: occ, From: from.ID, To: to.ID}
	if len(switches) < 4096 {
		switches = append(switches, s)
	}
	// the log hash covers what the schedule is made of: who yielded where (site
	// and per-task passage count) to whom; not the global counter, which also
	// counts the yields inside map-ranging loops of the library
	mix(uint64(site)<<32 | uint64(occ))
	mix(uint64(from.ID)<<16 | uint64(to.ID))
}

//go:norace
func handOff(t, next *Task) {
	cur = next
	t.turn = 0
	next.turn = 1
	waitTurn(t)
}

// Yield is a scheduling point. site = class<<24 | index.
//
//go:norace
func Yield(site uint32) {
	if !active {
		return
	}
	t := cur
	if t == nil {
		return
	}
	if t.quiet > 0 {
		// Go randomises map iteration order: which yield points are passed, and
		// in which order, inside a loop over a map is not reproducible, so such
		// loops run without scheduling points
		return
	}
	if traceN < len(traceBuf) {
		traceBuf[traceN] = uint64(t.ID)<<32 | uint64(site)
		traceN++
	}
	class := (site >> 24) & 3
	idx := site & 0xFFFF
	occ := siteCount[class][idx] + 1
	siteCount[class][idx] = occ
	yc := yieldCount
	yieldCount = yc + 1
	t.Steps++
	if cfg.MaxYields != 0 && yieldCount > cfg.MaxYields {
		if !aborted {
			aborted = true
		}
		// let everybody run to completion without further switching
		return
	}
	// Decisions are a function of (seed, task, site, how often this task has
	// passed the site), not of a global stream: go-json ranges over Go maps
	// while it compiles a type, the order of the yield points inside such loops
	// differs from run to run, and a decision stream consumed in visiting order
	// would diverge after the first such loop.
	tocc := t.sites[class][idx] + 1
	t.sites[class][idx] = tocc
	var next *Task
	decided := false
	if len(pointIdx) != 0 {
		if is, ok := pointIdx[yc]; ok && yc == 0 {
			next = pickNext(t, cfg.Points[is[0]].To)
			decided = true
		}
	}
	if !decided && len(sitePoints) != 0 {
		if is, ok := sitePoints[uint64(site)<<32|uint64(tocc)]; ok {
			for _, pi := range is {
				pt := cfg.Points[pi]
				if pt.Task < 0 || pt.Task == t.ID {
					next = pickNext(t, pt.To)
					decided = true
					break
				}
			}
		}
	}
	if !decided {
		p := cfg.Prob[class]
		if p == 0 {
			return
		}
		h := hash3(cfg.Seed, uint64(t.ID)<<32|uint64(site), uint64(tocc))
		if uint32(h&0xFFFF) >= p {
			return
		}
		next = pickHashed(t, h>>16)
	}
	if next == nil || next == t {
		return
	}
	recordSwitch(site, t, next)
	handOff(t, next)
}

// block parks the current task until wake(obj) is called; the caller re-checks
// its condition afterwards. Returns false if there is no scheduler (caller
// must fall back to real blocking).
//
//go:norace
func block(obj interface{}) bool {
	if !active || cur == nil {
		return false
	}
	t := cur
	t.state = stBlocked
	t.waitOn = obj
	mix(uint64(t.ID)<<8 | 0xB0)
	next := pickNext(t, -1)
	if next == nil {
		// nobody can run: deadlock. Wake main; this goroutine parks forever.
		deadlock = true
		cur = nil
		mainTurn = 1
		for {
			runtime.Gosched()
		}
	}
	recordSwitch(0, t, next)
	handOff(t, next)
	return true
}

//go:norace
func wake(obj interface{}) {
	if !active {
		return
	}
	for _, t := range tasks {
		if t.state == stBlocked && t.waitOn == obj {
			t.state = stRunnable
			t.waitOn = nil
		}
	}
}

// QuietOn / QuietOff bracket a loop over a Go map in the instrumented copy;
// QuietLevel / QuietRestore (deferred at function entry) make sure an early
// return from inside such a loop ends the quiet region.
//
//go:norace
func QuietOn() {
	if active && cur != nil {
		cur.quiet++
	}
}

//go:norace
func QuietOff() {
	if active && cur != nil && cur.quiet > 0 {
		cur.quiet--
	}
}

//go:norace
func QuietLevel() int {
	if active && cur != nil {
		return cur.quiet
	}
	return 0
}

//go:norace
func QuietRestore(level int) {
	if active && cur != nil {
		cur.quiet = level
	}
}
