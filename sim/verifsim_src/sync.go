package verifsim

import (
	"sync"
	"sync/atomic"
)

// ---------------------------------------------------------------- Mutex

// Mutex wraps a real sync.Mutex (so that the race detector sees exactly the
// happens-before edges of the real thing) and keeps its own bookkeeping so
// that a task that would block is parked in the scheduler instead.
type Mutex struct {
	mu   sync.Mutex
	held bool
}

//go:norace
func (m *Mutex) isHeld() bool { return m.held }

//go:norace
func (m *Mutex) setHeld(v bool) { m.held = v }

func (m *Mutex) Lock() {
	for m.isHeld() {
		if !block(m) {
			break
		}
	}
	m.mu.Lock()
	m.setHeld(true)
}

func (m *Mutex) TryLock() bool {
	if m.isHeld() {
		return false
	}
	if m.mu.TryLock() {
		m.setHeld(true)
		return true
	}
	return false
}

func (m *Mutex) Unlock() {
	m.setHeld(false)
	m.mu.Unlock()
	wake(m)
}

// ---------------------------------------------------------------- RWMutex

// RWMutex is writer-preferring like sync.RWMutex: a waiting writer blocks new
// readers (which makes recursive read locking a deadlock when a writer
// arrives in between, as with the real type).
type RWMutex struct {
	mu             sync.RWMutex
	writer         bool
	readers        int
	writersWaiting int
}

//go:norace
func (m *RWMutex) canRLock() bool { return !m.writer && m.writersWaiting == 0 }

//go:norace
func (m *RWMutex) canLock() bool { return !m.writer && m.readers == 0 }

//go:norace
func (m *RWMutex) addReaders(d int) { m.readers += d }

//go:norace
func (m *RWMutex) addWaiting(d int) { m.writersWaiting += d }

//go:norace
func (m *RWMutex) setWriter(v bool) { m.writer = v }

func (m *RWMutex) RLock() {
	for !m.canRLock() {
		if !block(m) {
			break
		}
	}
	m.addReaders(1)
	m.mu.RLock()
}

func (m *RWMutex) RUnlock() {
	m.mu.RUnlock()
	m.addReaders(-1)
	wake(m)
}

func (m *RWMutex) Lock() {
	if !m.canLock() {
		m.addWaiting(1)
		for !m.canLock() {
			if !block(m) {
				break
			}
		}
		m.addWaiting(-1)
	}
	m.setWriter(true)
	m.mu.Lock()
}

func (m *RWMutex) Unlock() {
	m.mu.Unlock()
	m.setWriter(false)
	wake(m)
}

func (m *RWMutex) RLocker() sync.Locker { return (*rlocker)(m) }

type rlocker RWMutex

func (r *rlocker) Lock()   { (*RWMutex)(r).RLock() }
func (r *rlocker) Unlock() { (*RWMutex)(r).RUnlock() }

// ---------------------------------------------------------------- Once

type Once struct {
	state int32 // 0 = not run, 1 = running, 2 = done (bookkeeping, norace)
	hb    int32 // release/acquire word for the race detector
}

//go:norace
func (o *Once) getState() int32 { return o.state }

//go:norace
func (o *Once) setState(v int32) { o.state = v }

func (o *Once) Do(f func()) {
	for {
		switch o.getState() {
		case 2:
			atomic.LoadInt32(&o.hb) // acquire
			return
		case 1:
			if !block(o) {
				// no scheduler and already running: recursive Do; the real
				// sync.Once would deadlock here.
				panic("verifsim: recursive Once.Do")
			}
			continue
		}
		break
	}
	o.setState(1)
	defer func() {
		atomic.StoreInt32(&o.hb, 1) // release
		o.setState(2)
		wake(o)
	}()
	f()
}

// ---------------------------------------------------------------- Pool

const (
	PoolLIFO = iota
	PoolFIFO
	PoolMiss   // every Get misses (New is called), Put drops
	PoolRandom // hit with probability 1/2, random element
)

type poolItem struct {
	x  interface{}
	hb *int32
}

// poolCap bounds the simulated pool: fixed arrays, because growing a slice
// calls runtime.growslice, which the race detector annotates itself (even in
// norace callers) and which would produce harness-only reports.
const poolCap = 64

type Pool struct {
	New func() interface{}

	items      [poolCap]poolItem
	n          int
	victims    [poolCap]poolItem
	vn         int
	registered bool
}

var (
	poolPolicy   int
	poolRng      uint64 = 88172645463325252
	allPools     [256]*Pool
	nPools       int
	poolGets     uint64
	poolHits     uint64
	poolPutCount uint64
)

//go:norace
func SetPoolPolicy(p int, seed uint64) {
	poolPolicy = p
	poolRng = seed*0x9E3779B97F4A7C15 + 1
}

//go:norace
func PoolStats() (gets, hits, puts uint64) { return poolGets, poolHits, poolPutCount }

//go:norace
func poolRand() uint64 {
	x := poolRng
	x ^= x << 13
	x ^= x >> 7
	x ^= x << 17
	poolRng = x
	return x
}

// PoolsGC emulates what a garbage collection cycle does to sync.Pool: the
// primary cache becomes the victim cache, the old victim cache is dropped.
//
//go:norace
func PoolsGC() {
	for i := 0; i < nPools; i++ {
		p := allPools[i]
		p.victims = p.items
		p.vn = p.n
		p.n = 0
	}
}

//go:norace
func (p *Pool) register() {
	if !p.registered {
		p.registered = true
		if nPools < len(allPools) {
			allPools[nPools] = p
			nPools++
		}
	}
}

//go:norace
func (p *Pool) take() (poolItem, bool) {
	p.register()
	poolGets++
	if poolPolicy == PoolMiss {
		return poolItem{}, false
	}
	if p.n == 0 && p.vn != 0 {
		p.items = p.victims
		p.n = p.vn
		p.vn = 0
	}
	n := p.n
	if n == 0 {
		return poolItem{}, false
	}
	k := n - 1
	switch poolPolicy {
	case PoolFIFO:
		k = 0
	case PoolRandom:
		r := poolRand()
		if r&1 == 0 {
			return poolItem{}, false
		}
		k = int((r >> 1) % uint64(n))
	}
	it := p.items[k]
	for i := k; i < n-1; i++ {
		p.items[i] = p.items[i+1]
	}
	p.items[n-1] = poolItem{}
	p.n = n - 1
	poolHits++
	return it, true
}

//go:norace
func (p *Pool) push(it poolItem) {
	p.register()
	poolPutCount++
	if poolPolicy == PoolMiss || p.n >= poolCap {
		return
	}
	p.items[p.n] = it
	p.n++
}

func (p *Pool) Get() interface{} {
	it, ok := p.take()
	if ok {
		atomic.LoadInt32(it.hb) // acquire: Put(x) happens before Get returning x
		return it.x
	}
	if p.New != nil {
		return p.New()
	}
	return nil
}

func (p *Pool) Put(x interface{}) {
	if x == nil {
		return
	}
	w := new(int32)
	atomic.StoreInt32(w, 1) // release
	p.push(poolItem{x: x, hb: w})
}
