package verifsim

import (
	"fmt"
	"unsafe"
)

// Identity assertion (C14, oracle O4): the instrumented cache entry points
// report every (requested type, returned program, program's own type) triple.
// A program whose own type differs from the requested one, or one program
// object returned for two different types, is a violation at the moment it is
// returned. Tables are open-addressing arrays touched only in norace code
// (the runtime annotates map accesses itself, so maps would produce
// harness-only race reports).

type IdentityViolation struct {
	Kind string
	Text string
}

const idTabSize = 1 << 16

var (
	idKeys   [2][idTabSize]uintptr // program -> slot
	// idAlive keeps every program seen reachable: a program that lost a
	// compile race is garbage otherwise, and its address could be reused by a
	// program compiled later for another type (a false "shared program").
	idAlive [2][idTabSize]unsafe.Pointer
	idTypes  [2][idTabSize]uintptr // first type seen for the program
	idChecks uint64
	idProgs  uint64
	idViols  = make([]IdentityViolation, 0, 8)
)

//go:norace
func idSlot(tab int, prog uintptr) int {
	h := int((prog >> 3) * 2654435761 % idTabSize)
	for i := 0; i < idTabSize; i++ {
		s := (h + i) % idTabSize
		if idKeys[tab][s] == prog || idKeys[tab][s] == 0 {
			return s
		}
	}
	return -1
}

// CheckProgram is called by the wrappers of CompileToGetCodeSet (kind "enc")
// and CompileToGetDecoder (kind "dec"). ownType is 0 when the program does
// not record its type (decoders).
//
//go:norace
func CheckProgram(kind string, reqType, prog, ownType uintptr) {
	if prog == 0 {
		return
	}
	idChecks++
	tab := 0
	if kind == "dec" {
		tab = 1
	}
	if ownType != 0 && ownType != reqType {
		if len(idViols) < 8 {
			idViols = append(idViols, IdentityViolation{Kind: kind + "|own_type", Text: fmt.Sprintf("%s cache returned for the requested type a program compiled for another type (requested descriptor +%#x, program's own type +%#x relative)", kind, reqType&0xfffff, ownType&0xfffff)})
		}
	}
	s := idSlot(tab, prog)
	if s < 0 {
		return
	}
	if idKeys[tab][s] == 0 {
		idKeys[tab][s] = prog
		idAlive[tab][s] = *(*unsafe.Pointer)(unsafe.Pointer(&prog))
		idTypes[tab][s] = reqType
		idProgs++
		return
	}
	if idTypes[tab][s] != reqType {
		if len(idViols) < 8 {
			idViols = append(idViols, IdentityViolation{Kind: kind + "|shared_program", Text: fmt.Sprintf("%s cache returned one program object for two different types (descriptors differ by %d bytes)", kind, int64(reqType)-int64(idTypes[tab][s]))})
		}
	}
}

//go:norace
func IdentityViolations() []IdentityViolation { return idViols }

//go:norace
func IdentityStats() (checks, programs uint64) { return idChecks, idProgs }
