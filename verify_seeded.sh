#!/bin/bash
# usage: verify_seeded.sh <prop> <mN> [extra go test flags]  -- confirms a seeded change in a scratch worktree of /repo's HEAD
prop=$1; m=$2; shift 2; flags="$@"
export GOFLAGS=-mod=mod GOPROXY=off GOSUMDB=off GOTOOLCHAIN=local
src=${SRCBASE:-/tmp/wt}/$prop/mutants
wt=/tmp/wtv-$prop-$m
git -C /repo worktree remove --force $wt >/dev/null 2>&1; rm -rf $wt
git -C /repo worktree add -f $wt HEAD >/dev/null 2>&1 || { echo "worktree failed"; exit 2; }
cd $wt
res_apply=clean
if ! git apply --check $src/$m.diff 2>/dev/null; then
  if git apply --3way $src/$m.diff >/dev/null 2>&1; then res_apply=3way; git reset -q HEAD; else res_apply=conflict; fi
else git apply $src/$m.diff; fi
if [ $res_apply = conflict ]; then echo "$prop $m apply=conflict"; cd /; git -C /repo worktree remove --force $wt; exit 0; fi
git diff > /tmp/$prop-$m.rebased.diff
build=ok; go build ./... >/dev/null 2>&1 || build=FAIL
suite=$(go test -vet=off -count=1 -timeout 25m ./... 2>&1 | grep -c "^FAIL\|^---")
cp $src/${m}_demo_test.go .
demo_with=$(go test -vet=off -count=1 $flags -run "TestDemo" . 2>&1 | tail -1 | cut -c1-40)
git checkout -- . 2>/dev/null
demo_without=$(go test -vet=off -count=1 $flags -run "TestDemo" . 2>&1 | tail -1 | cut -c1-40)
echo "$prop $m apply=$res_apply build=$build suite_failures=$suite demo_with=[$demo_with] demo_without=[$demo_without]"
cd /; git -C /repo worktree remove --force $wt
