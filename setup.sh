#!/bin/sh
# Builds the driver from files on disk only (standard library, offline).
set -e
cd "$(dirname "$0")/sim"
export GOFLAGS=-mod=mod GOPROXY=off GOSUMDB=off GOTOOLCHAIN=local
mkdir -p ../bin ../evidence ../replays
go build -o ../bin/simd ./cmd/simd
echo "built /verif/bin/simd"
