#!/bin/sh
# Re-runs the quick check of every seeded change that is expected to be caught; prints one line per change.
cd /verif
for d in seeded/*/; do
  id=$(basename "$d"); prop=$(python3 -c "import json;print(json.load(open('$d/meta.json'))['property'])")
  status=$(python3 -c "import json;print(json.load(open('$d/meta.json'))['status'])")
  case "$status" in caught*) ;; *) echo "$id skipped ($status)"; continue;; esac
  res=$(./try_mutant.sh "/verif/$d/patch.diff" "$prop" 2>&1 | head -2 | tr '\n' ' ')
  echo "$id $prop $res"
done
