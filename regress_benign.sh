#!/bin/sh
# Runs the quick checks against every behaviour-preserving change in seeded-benign/: every check must stay quiet.
cd /verif
for d in seeded-benign/*/; do
  id=$(basename "$d")
  [ -n "${ONLY:-}" ] && case "$id" in $ONLY) ;; *) continue;; esac
  case "$id" in A-*) props="C09 C06 C11 C12 C10 C20";; B-*) props="C10 C11 C12 C14 C19";; w7-B1-*) props="C10 C11 C12 C14 C19";; w7-B2-*) props="C09 C06 C11 C12 C10 C20 C14";; *) props="C06 C11 C19 C20 C12 C10";; esac
  for p in $props; do
    res=$(./try_mutant.sh "/verif/$d/patch.diff" "$p" 2>&1 | head -2 | tr '\n' ' ')
    echo "$id $p $res"
    case "$res" in *"exit=0"*) ;; *) cp /tmp/mutant.out "/tmp/benign-$id-$p.out" 2>/dev/null;; esac
  done
done
